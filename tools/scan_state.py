#!/venv/bin/python
"""
AST scan of /repo/okdmr/dmrlib (tests and tools excluded) for *hidden state*: everything through which
one library call could influence a later one or alter its arguments (property C19).

It does not import the package: the inventory is a property of the source text, so that a NEW mutable
default / cache / in-place mutation shows up as a changed inventory even if no test reaches it.

Output of `scan()`: a sorted list of 4-tuples of strings `(file, qualified name, kind, detail)`;
no line numbers, no table contents (editing a table value or moving code does not change the inventory,
adding a new piece of hidden state does).

kinds
  mutable-default   a parameter default that is evaluated once and is (or may be) a mutable object:
                    list/dict/set literal or comprehension, or any call except the immutable builtins; the detail ends with what
                    the function does with the parameter: `-> self.x: as is` (every object built with the default holds the ONE
                    default object) / `slice copy` / `copy` / `derived value` / `not stored in an attribute`
  class-mutable     a class-level binding to a container literal / comprehension / call result
                    (tables, shared calculator singletons, token tables)
  enum-call-value   an Enum member whose value is a call result (e.g. a configuration object)
  module-global     a module-level binding to a container literal / comprehension / call result
  global-write      a `global` / `nonlocal` statement
  cache             functools.lru_cache / cache / cached_property (or any decorator named *cache*)
  param-mutation    a function mutates one of its parameters (or an alias / element of it) in place
  shared-mutation   a function mutates something reached from a class attribute, a module global or a
                    known-tokens style accessor (cls.X / self.X with X a class-level name / Global[...]), or
                    binds / deletes an attribute of a class or module-level object named directly
                    (`ClassName.attr = …`, `setattr(ClassName, …)`: a memo parked on the class)
  self-mutation     a method other than __init__/__post_init__/set_*/property setter assigns to or mutates
                    an attribute of self (codec objects that change when they are serialised / queried)
  ambient-read      a use of time / datetime / random / secrets / uuid / os.environ / os.urandom / os.getpid
  ambient-read-at-import
                    a CALL of time / datetime / random / secrets / uuid / os.urandom / os.getpid / os.getenv (or a read of
                    os.environ) that is evaluated when the module is IMPORTED - at module level, in a class body, in a
                    decorator or in a parameter default - directly, or through a function of the package that reads them
                    (`gpsdata = GPSData.zero()` as a default).  Every module (not only the codec ones): what the
                    interpreter saw at import is frozen into every later call (a clock patched after import sees nothing)
  enum-member-state an Enum class binds an attribute of its members to a (possibly) mutable object in __init__ / __new__
                    (`self._bits = int2ba(...)`): members are created once, when the module is imported, and are process-wide
                    singletons - whatever a member keeps is shared by every later call
  returns-shared    a function may hand back an object reached from a class attribute, a module global, the class itself
                    or - in an Enum - an attribute of the member (`return self._bits`, `return cls.TABLE[k]`, also inside a
                    returned tuple / list or through a plain alias): the caller holds library state, an in-place operation
                    on the "result" changes what every later call sees
  returns-argument  a function may hand back one of its parameters itself (`return payload`, also inside a returned
                    tuple / list, through a plain alias or through another returns-argument function): the caller of
                    such a function holds the ARGUMENT, an in-place operation on the "result" lands in the caller's buffer.
                    The taint of param-mutation / shared-mutation flows through calls of these functions
                    (`x = bytes_to_bits(data); x += …` is a param-mutation of `data` if bytes_to_bits may return its argument)
"""
import ast
import os
import sys

def _find_pkg():
    """the okdmr.dmrlib the interpreter would import (editable install -> /repo's working tree); not imported"""
    try:
        import importlib.util

        spec = importlib.util.find_spec("okdmr.dmrlib")
        locs = list(spec.submodule_search_locations or []) if spec else []
        if locs and os.path.isdir(locs[0]):
            return locs[0]
    except Exception:  # pragma: no cover
        pass
    return "/repo/okdmr/dmrlib"


PKG = _find_pkg()
EXCLUDE_DIRS = {"tests", "tools", "__pycache__"}

IMMUTABLE_CALLS = {
    "bytes", "int", "str", "float", "bool", "tuple", "frozenset", "complex", "range", "len", "type",
    "TypeVar", "NewType", "namedtuple", "property", "staticmethod", "classmethod", "object",
    "getLogger", "logging.getLogger", "re.compile", "compile", "struct.Struct", "Struct",
}
MUTATING_METHODS = {
    "invert", "append", "extend", "remove", "pop", "update", "sort", "reverse", "clear", "fill",
    "insert", "setall", "frombytes", "fromfile", "bytereverse", "byteswap", "setdefault", "popitem",
    "add", "discard", "pack", "encode_into", "resize", "put", "itemset", "setfield", "setflags",
    "intersection_update", "difference_update", "symmetric_difference_update", "appendleft",
    "extendleft", "popleft", "rotate", "__setitem__", "__delitem__", "__iadd__", "write", "writelines",
    "truncate", "seek", "readinto",
}
# methods that hand out (parts of) the receiver: taint flows through them
PASS_THROUGH_METHODS = {
    "get", "values", "items", "keys", "copy", "__getitem__", "get_known_tokens", "get_known_attributes",
    "get_configuration", "setdefault", "pop",
}
SHALLOW_COPY_FUNCS = {"copy", "copy.copy", "dict", "list", "set", "sorted", "reversed", "enumerate", "zip", "iter", "next", "filter", "map"}
AMBIENT_MODULES = {"time", "datetime", "random", "secrets", "uuid"}
AMBIENT_OS = {"environ", "urandom", "getpid", "getenv", "times"}
# constructors / parsers of the ambient modules that read nothing from the environment of the interpreter
PURE_AMBIENT = {
    "datetime.date", "datetime.time", "datetime.datetime", "datetime.timedelta", "datetime.timezone", "datetime.timezone.utc",
    "datetime.datetime.strptime", "datetime.datetime.fromisoformat", "datetime.date.fromisoformat", "datetime.time.fromisoformat",
    "datetime.datetime.combine", "datetime.date.fromordinal", "datetime.datetime.fromordinal", "datetime.datetime.min",
    "datetime.datetime.max", "datetime.date.min", "datetime.date.max", "datetime.time.min", "datetime.time.max",
    "time.struct_time", "time.strptime", "uuid.UUID", "datetime", "time", "random", "uuid", "secrets", "os",
}
ENUM_BASES = {"Enum", "IntEnum", "Flag", "IntFlag", "StrEnum", "enum.Enum", "enum.IntEnum", "enum.Flag", "enum.IntFlag"}
# stateful by design (protocol handlers, storage, transmission tracking): properties C08/C17/C18/C20.
# self-mutation and ambient reads are inventoried for the codec modules only (everything else).
NON_CODEC_DIRS = ("okdmr/dmrlib/protocols/", "okdmr/dmrlib/storage/", "okdmr/dmrlib/transmission/")
SCALAR_ANNOTATIONS = {"int", "str", "bytes", "float", "bool", "Optional[int]", "Optional[str]", "Optional[bytes]", "Optional[float]", "Optional[bool]"}
# immutable whatever object the caller really passes (a `bytes` annotation is not: bytearray / bitarray / memoryview are accepted
# by everything that takes the buffer protocol, and an in-place operator on them does not rebind)
TRULY_SCALAR_ANNOTATIONS = {"int", "str", "float", "bool", "Optional[int]", "Optional[str]", "Optional[float]", "Optional[bool]"}
EXEMPT_SELF_METHODS = {"__init__", "__post_init__", "__new__", "__init_subclass__", "__setattr__", "__set_name__"}


def dotted(node):
    """a.b.c for Name/Attribute chains, else None"""
    parts = []
    while isinstance(node, ast.Attribute):
        parts.append(node.attr)
        node = node.value
    if isinstance(node, ast.Name):
        parts.append(node.id)
        return ".".join(reversed(parts))
    return None


def call_name(node):
    return dotted(node.func) if isinstance(node, ast.Call) else None


def short(node, limit=60):
    try:
        s = ast.unparse(node)
    except Exception:  # pragma: no cover
        s = type(node).__name__
    s = " ".join(s.split())
    return s if len(s) <= limit else s[: limit - 1] + ".."


def value_kind(v):
    """None if the expression is certainly immutable / harmless, else a short description of its constructor"""
    if v is None:
        return None
    if isinstance(v, (ast.List, ast.ListComp)):
        return "list"
    if isinstance(v, (ast.Dict, ast.DictComp)):
        return "dict"
    if isinstance(v, (ast.Set, ast.SetComp)):
        return "set"
    if isinstance(v, ast.Call):
        n = call_name(v) or short(v.func, 30)
        if n in IMMUTABLE_CALLS or n.split(".")[-1] in IMMUTABLE_CALLS:
            return None
        return f"call {n}"
    if isinstance(v, ast.BinOp):
        return value_kind(v.left) or value_kind(v.right)
    if isinstance(v, ast.IfExp):
        return value_kind(v.body) or value_kind(v.orelse)
    if isinstance(v, ast.Subscript):
        # slicing/indexing a container literal or a call result yields another object of that kind
        return value_kind(v.value)
    return None


def root_name(node):
    """the Name at the bottom of an attribute / subscript / (pass-through) call chain, with the chain depth"""
    depth = 0
    while True:
        if isinstance(node, ast.Attribute):
            node = node.value
            depth += 1
        elif isinstance(node, ast.Subscript):
            node = node.value
            depth += 1
        elif isinstance(node, ast.Starred):
            node = node.value
        elif isinstance(node, ast.Call):
            f = node.func
            if isinstance(f, ast.Attribute) and f.attr in PASS_THROUGH_METHODS:
                node = f.value
                depth += 1
            elif dotted(f) == "type" and len(node.args) == 1:
                node = node.args[0]  # type(x): the class of x, shared by all its instances
                depth += 1
            elif (dotted(f) in SHALLOW_COPY_FUNCS) and node.args:
                node = node.args[0]
                depth += 1
            else:
                return None, depth
        elif isinstance(node, ast.Name):
            return node.id, depth
        else:
            return None, depth


class ModuleScan:
    def __init__(self, path, rel, class_attrs, module_globals, returns_param=None, module_names=None):
        self.path = path
        self.rel = rel
        self.items = set()
        self.class_attrs = class_attrs  # names bound at class level anywhere in the package
        self.module_globals = module_globals  # rel -> set of mutable global names
        self.ambient = {}  # local name -> dotted origin
        self.codec = not rel.startswith(NON_CODEC_DIRS)
        # function name (last component) -> {(positional index without self / cls, parameter name)} it may hand back itself
        self.returns_param = returns_param or {}
        self.returns = {}  # what THIS scan found: function name -> {(index, parameter)}
        # names bound at module level in this file (def / class / import / assignment): objects shared by all calls
        self.module_names = (module_names or {}).get(rel, set())
        self.ambient_uses = set()  # (qualified name, dotted ambient origin): every module, also the non-codec ones
        self.calls = set()  # (qualified name of the caller, dotted name of the callee)
        self.import_calls = set()  # (where, dotted name of the callee): calls evaluated when the module is imported
        self.tree = None  # parsed source (scan() hands it over; the scan never modifies it)

    def add(self, qual, kind, detail):
        if kind in ("self-mutation", "ambient-read", "returns-shared") and not self.codec:
            return
        self.items.add((self.rel, qual, kind, detail))

    # ------------------------------------------------------------------------------------------
    def run(self):
        tree = self.tree if self.tree is not None else ast.parse(open(self.path, encoding="utf-8").read(), filename=self.path)
        for node in ast.walk(tree):
            if isinstance(node, ast.Import):
                for a in node.names:
                    top = a.name.split(".")[0]
                    if top in AMBIENT_MODULES or top == "os":
                        self.ambient[a.asname or top] = a.name if a.asname else top
            elif isinstance(node, ast.ImportFrom) and node.module:
                top = node.module.split(".")[0]
                if top in AMBIENT_MODULES:
                    for a in node.names:
                        self.ambient[a.asname or a.name] = f"{node.module}.{a.name}"
                elif top == "os":
                    for a in node.names:
                        if a.name in AMBIENT_OS:
                            self.ambient[a.asname or a.name] = f"os.{a.name}"
        self.body(tree.body, "<module>", None)

    def body(self, stmts, qual, cls):
        for st in stmts:
            if isinstance(st, ast.ClassDef):
                is_enum = any((dotted(b) or "") in ENUM_BASES or (dotted(b) or "").endswith("Enum") for b in st.bases)
                q = st.name if qual == "<module>" else f"{qual}.{st.name}"
                for d in st.decorator_list:
                    self.ambient_reads(d, q + ".<decorator>", at_import=True)
                self.class_level(st, q, is_enum)
                self.body(st.body, q, st)
            elif isinstance(st, (ast.FunctionDef, ast.AsyncFunctionDef)):
                q = st.name if qual == "<module>" else f"{qual}.{st.name}"
                self.function(st, q, cls)
            elif qual == "<module>" and cls is None:
                self.module_level(st)

    # ------------------------------------------------------------------------------------------
    def module_level(self, st):
        targets, value = [], None
        if isinstance(st, ast.Assign):
            targets, value = st.targets, st.value
        elif isinstance(st, ast.AnnAssign):
            targets, value = [st.target], st.value
        elif isinstance(st, (ast.If, ast.Try, ast.With, ast.For, ast.While)):
            subs = [x for x in ast.iter_child_nodes(st) if isinstance(x, ast.stmt)]
            for h in getattr(st, "handlers", []) or []:
                subs += h.body
            for sub in subs:
                if isinstance(sub, (ast.FunctionDef, ast.AsyncFunctionDef, ast.ClassDef)):
                    self.body([sub], "<module>", None)  # a definition inside `if` / `try` at module level
                else:
                    self.module_level(sub)
        if value is not None:
            k = value_kind(value)
            for t in targets:
                n = dotted(t)
                if n and k and n != "__all__":
                    self.add("<module>", "module-global", f"{n}: {k}")
        if not isinstance(st, (ast.FunctionDef, ast.AsyncFunctionDef, ast.ClassDef)):
            self.ambient_reads(st, "<module>", skip_defs=True, at_import=True)

    def class_level(self, cdef, q, is_enum):
        for st in cdef.body:
            if not isinstance(st, (ast.FunctionDef, ast.AsyncFunctionDef, ast.ClassDef)):
                # everything in a class body that is not a definition runs at import (also bare expressions, if / for / try)
                self.ambient_reads(st, q + ".<class body>", skip_defs=True, at_import=True)
            targets, value = [], None
            if isinstance(st, ast.Assign):
                targets, value = st.targets, st.value
            elif isinstance(st, ast.AnnAssign):
                targets, value = [st.target], st.value
            if value is None:
                continue
            k = value_kind(value)
            for t in targets:
                n = dotted(t)
                if not n or not k:
                    continue
                if is_enum:
                    if k.startswith("call"):
                        self.add(q, "enum-call-value", f"{n}: {k}")
                    elif k in ("list", "dict", "set"):
                        self.add(q, "class-mutable", f"{n}: {k}")
                else:
                    self.add(q, "class-mutable", f"{n}: {k}")

    # ------------------------------------------------------------------------------------------
    def function(self, fn, q, cls):
        args = fn.args
        params = [a.arg for a in args.posonlyargs + args.args + args.kwonlyargs]
        if args.vararg:
            params.append(args.vararg.arg)
        if args.kwarg:
            params.append(args.kwarg.arg)
        scalar = set()
        truly_scalar = set()
        for a in args.posonlyargs + args.args + args.kwonlyargs:
            if a.annotation is not None and short(a.annotation, 80) in SCALAR_ANNOTATIONS:
                scalar.add(a.arg)
            if a.annotation is not None and short(a.annotation, 80) in TRULY_SCALAR_ANNOTATIONS:
                truly_scalar.add(a.arg)
        decos = [dotted(d.func) if isinstance(d, ast.Call) else dotted(d) for d in fn.decorator_list]
        decos = [d or "" for d in decos]
        is_static = "staticmethod" in decos
        is_method = cls is not None and not is_static
        self_name = params[0] if (is_method and params) else None
        # the first parameter IS the class: `cls.X = …` is state of the class, shared by every later call
        is_classmethod = is_method and ("classmethod" in decos or fn.name in ("__init_subclass__", "__class_getitem__", "__new__"))
        is_setter = any(d.endswith(".setter") or d.endswith(".deleter") for d in decos)
        in_enum = cls is not None and any((dotted(b) or "") in ENUM_BASES or (dotted(b) or "").endswith("Enum") or (dotted(b) or "").endswith("Flag") for b in cls.bases)

        # caches
        for d in decos:
            last = d.split(".")[-1]
            if "cache" in last.lower():
                self.add(q, "cache", f"@{d}")
        for d in fn.decorator_list:
            self.ambient_reads(d, q + ".<decorator>", at_import=True)

        # defaults (the rows are added further down, with what the function does with the parameter: `mutable_defaults`)
        mutable_defaults = []
        pos = args.posonlyargs + args.args
        for a, d in zip(pos[len(pos) - len(args.defaults):], args.defaults):
            k = value_kind(d)
            if k:
                mutable_defaults.append((a.arg, f"{a.arg} = {short(d)} [{k}]"))
            self.ambient_reads(d, q + ".<default>", at_import=True)
        for a, d in zip(args.kwonlyargs, args.kw_defaults):
            if d is not None:
                k = value_kind(d)
                if k:
                    mutable_defaults.append((a.arg, f"{a.arg} = {short(d)} [{k}]"))
                self.ambient_reads(d, q + ".<default>", at_import=True)

        # nested defs are scanned as their own functions (closures over parameters are rare here)
        inner_stmts = []
        for node in ast.walk(fn):
            if node is fn:
                continue
            if isinstance(node, (ast.FunctionDef, ast.AsyncFunctionDef, ast.ClassDef)):
                inner_stmts.append(node)
        for node in fn.body:
            if isinstance(node, (ast.FunctionDef, ast.AsyncFunctionDef)):
                self.function(node, f"{q}.<locals>.{node.name}", None)
            elif isinstance(node, ast.ClassDef):
                self.body([node], f"{q}.<locals>", None)

        # ---- taint: which local names may refer to (parts of) caller-visible / shared objects
        PARAM, SHARED, SELF, CLS = "param", "shared", "self", "class"
        taint = {}
        for p in params:
            if p == self_name:
                taint[p] = (CLS if is_classmethod else SELF, p)
            else:
                taint[p] = (PARAM, p)
        globs = self.module_globals.get(self.rel, set())
        free_params = [p for p in params if p != self_name]

        def returned_args(call):
            """argument expressions of a call that the callee (matched by its name) may hand back itself"""
            f = call.func
            fname = f.attr if isinstance(f, ast.Attribute) else (f.id if isinstance(f, ast.Name) else None)
            out = []
            for idx, pname in sorted(self.returns_param.get(fname, ())):
                kw = next((k.value for k in call.keywords if k.arg == pname), None)
                if kw is not None:
                    out.append(kw)
                elif idx < len(call.args) and not isinstance(call.args[idx], ast.Starred):
                    out.append(call.args[idx])
            return out

        def expr_taint(e):
            """(class, origin) if the expression may evaluate to a shared / caller-owned mutable object"""
            if e is None:
                return None
            if isinstance(e, (ast.IfExp,)):
                return expr_taint(e.body) or expr_taint(e.orelse)
            if isinstance(e, ast.BoolOp):
                for v in e.values:
                    t = expr_taint(v)
                    if t:
                        return t
                return None
            if isinstance(e, (ast.Tuple, ast.List)):
                return None  # a fresh container; elements are not tracked through it
            if isinstance(e, ast.NamedExpr):
                return expr_taint(e.value)
            if isinstance(e, ast.Call):
                # a function that may return its argument itself: the "result" is the caller-visible object
                for a in returned_args(e):
                    t = expr_taint(a)
                    if t:
                        return t
            name, depth = root_name(e)
            if name is None:
                return None
            # cls.X / self.X / self.__class__.X / ClassName.X with X bound at class level
            d = dotted(e) if not isinstance(e, ast.Call) else None
            chain = None
            node = e
            # find the attribute directly above the root
            attrs = []
            n2 = e
            while True:
                if isinstance(n2, ast.Attribute):
                    attrs.append(n2.attr)
                    n2 = n2.value
                elif isinstance(n2, ast.Subscript):
                    n2 = n2.value
                elif isinstance(n2, ast.Call) and isinstance(n2.func, ast.Attribute) and n2.func.attr in PASS_THROUGH_METHODS:
                    attrs.append(n2.func.attr + "()")
                    n2 = n2.func.value
                elif isinstance(n2, ast.Call) and len(n2.args) == 1 and dotted(n2.func) == "type":
                    attrs.append("__class__")
                    n2 = n2.args[0]
                elif isinstance(n2, ast.Call) and n2.args and dotted(n2.func) in SHALLOW_COPY_FUNCS:
                    n2 = n2.args[0]
                else:
                    break
            attrs.reverse()
            if name in taint:
                cls_, origin = taint[name]
                if cls_ == CLS:
                    first = next((a for a in attrs if a != "__class__"), None)
                    return (SHARED, name if first is None else f"{name}.{first}")
                if cls_ == SELF:
                    # self.X where X is a class-level name (or an accessor of class-level tables) -> shared
                    first = next((a for a in attrs if a != "__class__"), None)
                    if attrs and attrs[0] == "__class__":
                        # self.__class__ / type(self): the class object itself
                        return (SHARED, f"{name}.__class__" + ("" if first is None else f".{first}"))
                    if first is None:
                        return (SELF, name)
                    bare = first[:-2] if first.endswith("()") else first
                    if bare in self.class_attrs or first.endswith("()"):
                        return (SHARED, f"{name}.{first}")
                    return (SELF, f"{name}.{bare}")
                return (cls_, origin)
            if name in globs and isinstance(e, (ast.Name, ast.Attribute, ast.Subscript, ast.Call)):
                return (SHARED, name)
            # ClassName.X (capitalised root, attribute bound at class level)
            if name[:1].isupper() and attrs:
                bare = attrs[0][:-2] if attrs[0].endswith("()") else attrs[0]
                if bare in self.class_attrs or attrs[0].endswith("()"):
                    return (SHARED, f"{name}.{attrs[0]}")
            return None

        def bind(target, t):
            if t is None:
                return False
            changed = False
            if isinstance(target, ast.Name):
                if target.id not in taint or (taint[target.id][0] == SELF and t[0] != SELF):
                    if target.id not in taint:
                        taint[target.id] = t
                        changed = True
            elif isinstance(target, (ast.Tuple, ast.List)):
                for el in target.elts:
                    changed |= bind(el.value if isinstance(el, ast.Starred) else el, t)
            return changed

        own_nodes = []

        def collect(node):
            for ch in ast.iter_child_nodes(node):
                if isinstance(ch, (ast.FunctionDef, ast.AsyncFunctionDef, ast.ClassDef, ast.Lambda)):
                    continue
                own_nodes.append(ch)
                collect(ch)

        collect(fn)

        # fixed point over assignments / loops (flow-insensitive: "may alias")
        for _ in range(6):
            changed = False
            for node in own_nodes:
                if isinstance(node, ast.Assign):
                    t = expr_taint(node.value)
                    # `self.x = param` / `x = param` (direct alias) and derived parts
                    for tg in node.targets:
                        changed |= bind(tg, t)
                elif isinstance(node, ast.AnnAssign) and node.value is not None:
                    changed |= bind(node.target, expr_taint(node.value))
                elif isinstance(node, (ast.For, ast.AsyncFor)):
                    changed |= bind(node.target, expr_taint(node.iter))
                elif isinstance(node, ast.comprehension):
                    changed |= bind(node.target, expr_taint(node.iter))
                elif isinstance(node, ast.NamedExpr):
                    changed |= bind(node.target, expr_taint(node.value))
                elif isinstance(node, ast.withitem) and node.optional_vars is not None:
                    changed |= bind(node.optional_vars, expr_taint(node.context_expr))
            if not changed:
                break

        # names that are (re)bound to a fresh object somewhere in the function: noted in the detail
        rebound = set()
        for node in own_nodes:
            tgts = []
            if isinstance(node, ast.Assign):
                tgts = node.targets
            elif isinstance(node, ast.AnnAssign) and node.value is not None:
                tgts = [node.target]
            elif isinstance(node, ast.AugAssign):
                tgts = []
            for tg in tgts:
                for nm in ast.walk(tg):
                    if isinstance(nm, ast.Name) and isinstance(nm.ctx, ast.Store) and nm.id in params:
                        rebound.add(nm.id)

        muts = {}  # (kind, origin) -> set of op strings

        def note(target_expr, op, attr_write=False):
            """target_expr: the object that is mutated in place (attr_write: one of its attributes is (re)bound or deleted)"""
            t = expr_taint(target_expr)
            if t is None and attr_write and isinstance(target_expr, ast.Name) and target_expr.id not in taint and (
                target_expr.id[:1].isupper() or target_expr.id in globs or target_expr.id in self.module_names
            ):
                # `ClassName.attr = …` / `setattr(ClassName, …)` / `GLOBAL.attr = …`: a (new) attribute of a class or
                # module-level object written from inside a function is state shared by all later calls
                t = (SHARED, target_expr.id)
            if t is None and attr_write and isinstance(target_expr, ast.Attribute):
                # `ClassName.method.attr = …` / `module.Class.attr = …`: an attribute parked on something reached from a
                # class or module-level name
                rn, _ = root_name(target_expr)
                if rn and rn not in taint and (rn[:1].isupper() or rn in globs or rn in self.module_names):
                    t = (SHARED, short(target_expr, 40))
            if t is None:
                return
            cls_, origin = t
            if cls_ == SELF:
                if fn.name in EXEMPT_SELF_METHODS or is_setter or fn.name.startswith("set_"):
                    return
                kind = "self-mutation"
            elif cls_ == PARAM:
                kind = "param-mutation"
            else:
                kind = "shared-mutation"
            muts.setdefault((kind, origin), set()).add(op)

        for node in own_nodes:
            if isinstance(node, (ast.Assign, ast.AnnAssign, ast.AugAssign)):
                tgts = node.targets if isinstance(node, ast.Assign) else [node.target]
                flat = []
                for tg in tgts:
                    if isinstance(tg, (ast.Tuple, ast.List)):
                        flat.extend(tg.elts)
                    else:
                        flat.append(tg)
                for tg in flat:
                    if isinstance(tg, ast.Subscript) and isinstance(tg.value, ast.Call) and dotted(tg.value.func) in ("globals", "vars", "locals"):
                        if dotted(tg.value.func) != "locals":
                            self.add(q, "global-write", f"{short(tg.value, 40)}[..] =")
                    elif isinstance(tg, ast.Subscript):
                        note(tg.value, f"{short(tg.value, 40)}[..] {'op=' if isinstance(node, ast.AugAssign) else '='}")
                    elif isinstance(tg, ast.Attribute):
                        note(tg.value, f"{short(tg, 40)} {'op=' if isinstance(node, ast.AugAssign) else '='}", attr_write=True)
                    elif isinstance(tg, ast.Name) and isinstance(node, ast.AugAssign):
                        # `x += ..` on a list / bitarray / bytearray parameter is in place
                        t = taint.get(tg.id)
                        if t and t[0] == PARAM and (t[1] in truly_scalar or (t[1] in scalar and tg.id == t[1])):
                            # `data: bytes` … `data += b".."` rebinds; a name that holds what another function made of
                            # the parameter is not covered by the parameter's annotation
                            t = None
                        if t and t[0] in (PARAM, SHARED) and isinstance(node.op, (ast.Add, ast.BitOr, ast.BitAnd, ast.BitXor, ast.LShift, ast.RShift, ast.Mult)):
                            note(tg, f"{tg.id} {type(node.op).__name__}= (in place if the object is mutable)")
            elif isinstance(node, ast.Delete):
                for tg in node.targets:
                    if isinstance(tg, (ast.Subscript, ast.Attribute)):
                        note(tg.value, f"del {short(tg, 40)}", attr_write=isinstance(tg, ast.Attribute))
            elif isinstance(node, ast.Call) and isinstance(node.func, ast.Attribute):
                if node.func.attr in MUTATING_METHODS or node.func.attr.startswith("set_"):
                    note(node.func.value, f"{short(node.func, 50)}()")
            elif isinstance(node, ast.Call) and isinstance(node.func, ast.Name) and node.func.id in ("setattr", "delattr") and node.args:
                note(node.args[0], f"{node.func.id}({short(node.args[0], 40)}, ..)", attr_write=True)
            elif isinstance(node, (ast.Global, ast.Nonlocal)):
                self.add(q, "global-write", f"{type(node).__name__.lower()} {', '.join(node.names)}")

        for (kind, origin), ops in muts.items():
            extra = ""
            if kind == "param-mutation" and origin in rebound:
                extra = " [parameter is also rebound in the function]"
            self.add(q, kind, f"{origin}: " + "; ".join(sorted(ops)) + extra)

        # ---- enum-member-state: what an Enum's __init__ / __new__ parks on the member (a process-wide singleton)
        if in_enum and fn.name in ("__init__", "__new__", "__post_init__"):
            for node in own_nodes:
                tgts, val = [], None
                if isinstance(node, ast.Assign):
                    tgts, val = node.targets, node.value
                elif isinstance(node, ast.AnnAssign) and node.value is not None:
                    tgts, val = [node.target], node.value
                k = value_kind(val) if val is not None else None
                for tg in tgts:
                    if k and isinstance(tg, ast.Attribute) and isinstance(tg.value, ast.Name) and tg.attr not in ("_value_", "_name_"):
                        self.add(q, "enum-member-state", f"{tg.value.id}.{tg.attr}: {k}")
            for node in own_nodes:
                if isinstance(node, ast.Call) and isinstance(node.func, ast.Name) and node.func.id == "setattr" and len(node.args) >= 3 and value_kind(node.args[2]):
                    self.add(q, "enum-member-state", f"setattr({short(node.args[0], 30)}, ..): {value_kind(node.args[2])}")

        # ---- returns-shared: may the function hand back (an alias of) shared state?
        for node in own_nodes:
            if isinstance(node, (ast.Return, ast.Yield)) and node.value is not None:
                v = node.value
                for c in [v] + (list(v.elts) if isinstance(v, (ast.Tuple, ast.List)) else []):
                    if isinstance(c, (ast.Constant, ast.Tuple, ast.List, ast.JoinedStr, ast.Compare, ast.BinOp, ast.UnaryOp)):
                        continue
                    t = expr_taint(c)
                    if t is None:
                        continue
                    if t[0] == SHARED:
                        if in_enum and "." not in t[1] and "[" not in t[1]:
                            continue  # `for m in cls: return m`: a member of the Enum itself (that is what an Enum hands out)
                        self.add(q, "returns-shared", t[1])
                    elif t[0] == SELF and in_enum and "." in t[1]:
                        self.add(q, "returns-shared", f"{t[1]} [state of an Enum member]")

        # ---- returns-argument: may the function hand back one of its parameters itself?
        alias = {p: p for p in free_params if p not in truly_scalar}

        def direct(e):
            """the parameter the expression may BE (not a part or a copy of it)"""
            if isinstance(e, ast.Name):
                return alias.get(e.id)
            if isinstance(e, ast.IfExp):
                return direct(e.body) or direct(e.orelse)
            if isinstance(e, ast.BoolOp):
                return next((d for d in map(direct, e.values) if d), None)
            if isinstance(e, ast.NamedExpr):
                return direct(e.value)
            if isinstance(e, ast.Call):
                return next((d for d in map(direct, returned_args(e)) if d), None)
            return None

        for _ in range(4):
            grew = False
            for node in own_nodes:
                tgts, val = [], None
                if isinstance(node, ast.Assign):
                    tgts, val = node.targets, node.value
                elif isinstance(node, (ast.AnnAssign, ast.NamedExpr)) and node.value is not None:
                    tgts, val = [node.target], node.value
                d = direct(val) if val is not None else None
                for tg in tgts:
                    if d and isinstance(tg, ast.Name) and tg.id not in alias:
                        alias[tg.id] = d
                        grew = True
            if not grew:
                break
        handed_back = set()
        for node in own_nodes:
            if isinstance(node, (ast.Return, ast.Yield)) and node.value is not None:
                v = node.value
                for c in [v] + (list(v.elts) if isinstance(v, (ast.Tuple, ast.List)) else []):
                    d = direct(c)
                    if d:
                        handed_back.add(d)
        for p in sorted(handed_back):
            self.add(q, "returns-argument", p + (" [parameter is also rebound in the function]" if p in rebound else ""))
            self.returns.setdefault(fn.name, set()).add((free_params.index(p), p))

        # ---- mutable-default: what becomes of the (shared) default object - bound to an attribute AS IS (every object built with
        # the default then holds the one default object), as a slice / copy / other derived value, or not stored at all.  Part of the
        # row: turning `self.x = p[0:2]` into `self.x = p` changes the inventory although no new piece of state appears.
        COPY_CALLS = {"copy", "deepcopy", "copy.copy", "copy.deepcopy", "bitarray", "bytearray", "list", "dict", "set", "bytes", "tuple", "frozenbitarray"}

        def how_stored(pname):
            uses = set()
            for node in own_nodes:
                tgts, val = [], None
                if isinstance(node, ast.Assign):
                    tgts, val = node.targets, node.value
                elif isinstance(node, ast.AnnAssign) and node.value is not None:
                    tgts, val = [node.target], node.value
                elif isinstance(node, ast.Call) and isinstance(node.func, ast.Name) and node.func.id == "setattr" and len(node.args) >= 3:
                    tgts, val = [node.args[0]], node.args[2]
                if val is None:
                    continue
                for tg in tgts:
                    if not isinstance(tg, (ast.Attribute, ast.Subscript)) and not (isinstance(node, ast.Call)):
                        continue
                    if isinstance(tg, ast.Subscript) and not isinstance(tg.value, ast.Attribute):
                        continue
                    where = short(tg, 40)
                    if direct(val) == pname:
                        uses.add(f"{where}: as is")
                    elif any(isinstance(n, ast.Name) and alias.get(n.id) == pname for n in ast.walk(val)):
                        v = val
                        if isinstance(v, ast.Subscript) and isinstance(v.slice, ast.Slice) and direct(v.value) == pname:
                            uses.add(f"{where}: slice copy")
                        elif isinstance(v, ast.Call) and ((dotted(v.func) or "") in COPY_CALLS or (isinstance(v.func, ast.Attribute) and v.func.attr in ("copy", "__copy__", "__deepcopy__") and direct(v.func.value) == pname)):
                            uses.add(f"{where}: copy")
                        else:
                            uses.add(f"{where}: derived value")
            return "; ".join(sorted(uses)) if uses else "not stored in an attribute"

        for pname, detail in mutable_defaults:
            self.add(q, "mutable-default", f"{detail} -> {how_stored(pname)}")

        for node in fn.body:
            self.ambient_reads(node, q, skip_defs=True)

    # ------------------------------------------------------------------------------------------
    def ambient_full(self, n):
        """dotted ambient origin of a Name / Attribute chain (`date.today` -> `datetime.date.today`), else None"""
        d = dotted(n) if isinstance(n, (ast.Attribute, ast.Name)) else None
        if not d:
            return None
        root = d.split(".")[0]
        if root not in self.ambient:
            return None
        origin = self.ambient[root]
        full = origin + d[len(root):]
        if origin == "os" or origin.startswith("os."):
            parts = full.split(".")
            if len(parts) < 2 or parts[1] not in AMBIENT_OS:
                return None
        return full

    def ambient_reads(self, node, q, skip_defs=False, at_import=False):
        # calls (for `ambient-read-at-import` through a function of the package) are recorded for every module
        stack = [node]
        while stack:
            n = stack.pop()
            if skip_defs and n is not node and isinstance(n, (ast.FunctionDef, ast.AsyncFunctionDef, ast.ClassDef, ast.Lambda)):
                continue
            if isinstance(n, ast.Call):
                cn = dotted(n.func)
                if cn:
                    (self.import_calls if at_import else self.calls).add((q, cn))
                full = self.ambient_full(n.func)
                if full and full not in PURE_AMBIENT:
                    self.ambient_uses.add((q, full))
                    if at_import:
                        self.items.add((self.rel, q, "ambient-read-at-import", full + "()"))
            elif at_import and isinstance(n, ast.Attribute) and self.ambient_full(n) in ("os.environ",):
                self.items.add((self.rel, q, "ambient-read-at-import", "os.environ"))
            stack.extend(ast.iter_child_nodes(n))
        if not self.ambient:
            return
        stack = [node]
        while stack:
            n = stack.pop()
            if skip_defs and n is not node and isinstance(n, (ast.FunctionDef, ast.AsyncFunctionDef, ast.ClassDef)):
                continue
            if isinstance(n, (ast.Attribute, ast.Name)):
                d = dotted(n)
                if d:
                    root = d.split(".")[0]
                    if root in self.ambient:
                        origin = self.ambient[root]
                        full = origin + d[len(root):]
                        if origin == "os" or origin.startswith("os."):
                            parts = full.split(".")
                            if len(parts) < 2 or parts[1] not in AMBIENT_OS:
                                stack.extend(ast.iter_child_nodes(n)) if not isinstance(n, ast.Name) else None
                                continue
                        if isinstance(getattr(n, "ctx", None), ast.Load):
                            self.add(q, "ambient-read", full)
                        continue
            stack.extend(ast.iter_child_nodes(n))


def package_files(pkg=PKG):
    out = []
    for root, dirs, files in os.walk(pkg):
        dirs[:] = sorted(d for d in dirs if d not in EXCLUDE_DIRS)
        for fn in sorted(files):
            if fn.endswith(".py"):
                out.append(os.path.join(root, fn))
    return out


def scan(pkg=PKG):
    files = package_files(pkg)
    base = os.path.dirname(os.path.dirname(pkg))  # /repo
    # pass 1: names bound at class level, mutable module globals
    class_attrs = set()
    module_globals = {}
    trees = {}
    for p in files:
        rel = os.path.relpath(p, base)
        tree = ast.parse(open(p, encoding="utf-8").read(), filename=p)
        trees[p] = tree
        g = set()
        for st in tree.body:
            tg, val = [], None
            if isinstance(st, ast.Assign):
                tg, val = st.targets, st.value
            elif isinstance(st, ast.AnnAssign):
                tg, val = [st.target], st.value
            if val is not None and value_kind(val):
                for t in tg:
                    if isinstance(t, ast.Name):
                        g.add(t.id)
        module_globals[rel] = g
        for node in ast.walk(tree):
            if isinstance(node, ast.ClassDef):
                for st in node.body:
                    tg, val = [], None
                    if isinstance(st, ast.Assign):
                        tg, val = st.targets, st.value
                    elif isinstance(st, ast.AnnAssign):
                        tg, val = [st.target], st.value
                    if val is not None and value_kind(val):
                        for t in tg:
                            if isinstance(t, ast.Name):
                                class_attrs.add(t.id)
    module_names = {}
    for p in files:
        names = set()
        for st in ast.walk(trees[p]):
            if st in trees[p].body or isinstance(st, (ast.Import, ast.ImportFrom)):
                if isinstance(st, (ast.FunctionDef, ast.AsyncFunctionDef, ast.ClassDef)):
                    names.add(st.name)
                elif isinstance(st, ast.Import):
                    names |= {(a.asname or a.name).split(".")[0] for a in st.names}
                elif isinstance(st, ast.ImportFrom):
                    names |= {a.asname or a.name for a in st.names}
                elif isinstance(st, (ast.Assign, ast.AnnAssign)):
                    for t in (st.targets if isinstance(st, ast.Assign) else [st.target]):
                        if isinstance(t, ast.Name):
                            names.add(t.id)
        module_names[os.path.relpath(p, base)] = names
    # which functions may hand back an argument: fixed point (a function that returns what such a function returned)
    returns_param = {}
    scans = []
    for _ in range(5):
        scans = []
        found = {}
        for p in files:
            rel = os.path.relpath(p, base)
            ms = ModuleScan(p, rel, class_attrs, module_globals, returns_param, module_names)
            ms.tree = trees[p]
            ms.run()
            scans.append(ms)
            for k, v in ms.returns.items():
                found.setdefault(k, set()).update(v)
        if found == returns_param:
            break
        returns_param = found
    items = set()
    for ms in scans:
        items |= ms.items
    # ---- ambient reads at import THROUGH a function of the package (`gpsdata = GPSData.zero()` as a default)
    uses = {}  # qualified function name -> ambient origins it reads (directly or through the functions it calls)
    calls = {}
    for ms in scans:
        for q, full in ms.ambient_uses:
            if not q.endswith(("<class body>", "<default>", "<decorator>")) and q != "<module>":
                uses.setdefault(q, set()).add(full)
        for q, cn in ms.calls:
            calls.setdefault(q, set()).add(cn)

    def callees(cn):
        """qualified names a dotted callee name may denote (matched by name: `GPSData.zero`, `zero`, a class -> its __init__)"""
        if cn in memo:
            return memo[cn]
        last = cn.split(".")[-1]
        tail2 = ".".join(cn.split(".")[-2:])
        out = set()
        for q in by_last.get(last, ()):
            if q == cn or q.endswith("." + tail2) or q == tail2 or "." not in cn or cn.split(".")[0] in ("self", "cls"):
                out.add(q)
        for ctor in ("__init__", "__new__", "__post_init__"):
            for q in by_last.get(ctor, ()):
                if q == f"{last}.{ctor}" or q.endswith(f".{last}.{ctor}"):
                    out.add(q)
        memo[cn] = out
        return out

    memo = {}
    by_last = {}
    for q in set(uses) | set(calls):
        by_last.setdefault(q.split(".")[-1], set()).add(q)

    for _ in range(6):
        grew = False
        for q, cs in calls.items():
            for cn in cs:
                for t in callees(cn):
                    new = uses.get(t, set()) - uses.get(q, set())
                    if new and t != q:
                        uses.setdefault(q, set()).update(new)
                        grew = True
        if not grew:
            break
    for ms in scans:
        for q, cn in ms.import_calls:
            for t in sorted(callees(cn)):
                for full in sorted(uses.get(t, ())):
                    items.add((ms.rel, q, "ambient-read-at-import", f"{full}() through {cn}()"))
    return sorted(items)


def main(argv):
    pkg = argv[0] if argv else PKG
    rows = scan(pkg)
    kinds = {}
    for r in rows:
        kinds[r[2]] = kinds.get(r[2], 0) + 1
        print(" | ".join(r))
    print(f"# {len(rows)} items: " + ", ".join(f"{k}={v}" for k, v in sorted(kinds.items())), file=sys.stderr)
    return 0


if __name__ == "__main__":
    sys.exit(main(sys.argv[1:]))
