"""
Translator plugin for property C03: the information elements of layer 2 and layer 3.

For every enum class found in okdmr/dmrlib/etsi/layer2/elements/*.py and layer3/elements/*.py whose
bit width w is known (length of member.as_bits() if the class has as_bits, otherwise the width of the
information element in the standard, table WIDTHS) and w <= 8, the class is CALLED on all 2^w values
and the complete graph  v -> member value | error kind | nothing  is written to Gen/Elements.lean,
together with from_bits(int2ba(v, w)) (if any), the defined member values and member.as_bits().
No control flow of the library is translated: the graph is the function.
"""
import enum
import importlib
import pkgutil

from bitarray import bitarray
from bitarray.util import int2ba

# widths (bits) of the elements that have no as_bits(); ETSI TS 102 361-1 §9.3, 361-2 §7.2, 361-4
WIDTHS = {
    "AccessTypes": 1,
    "DataTypes": 4,
    "FullMessageFlag": 1,
    "LCSS": 2,
    "PreemptionPowerIndicator": 1,
    "ResynchronizeFlag": 1,
    "SARQ": 1,
    "SupplementaryFlag": 1,
    "AdditionalInformationField": 1,
    "AnnouncementType": 5,
    "RandomAccessServiceFunction": 2,
    "SourceType": 1,
    "UDTOptionFlag": 1,
}

PACKAGES = [
    "okdmr.dmrlib.etsi.layer2.elements",
    "okdmr.dmrlib.etsi.layer3.elements",
]


def element_classes():
    """[(class, module name)] in a deterministic order"""
    out = []
    for pkg_name in PACKAGES:
        pkg = importlib.import_module(pkg_name)
        for mi in sorted(pkgutil.iter_modules(pkg.__path__), key=lambda m: m.name):
            mod = importlib.import_module(f"{pkg_name}.{mi.name}")
            for name, obj in sorted(vars(mod).items()):
                if (
                    isinstance(obj, type)
                    and issubclass(obj, enum.Enum)
                    and obj.__module__ == mod.__name__
                ):
                    out.append(obj)
    return out


def width_of(cls):
    members = list(cls)
    if not members or not all(
        isinstance(m.value, int) and not isinstance(m.value, bool) and m.value >= 0 for m in members
    ):
        return None
    if callable(getattr(cls, "as_bits", None)) and "as_bits" in vars(cls):
        try:
            ws = {len(m.as_bits()) for m in members}
        except BaseException:
            return None
        if len(ws) == 1:
            return ws.pop()
        return None
    return WIDTHS.get(cls.__name__)


def classify(cls, v):
    """outcome of cls(v) as a Lean ElemRes term"""
    try:
        r = cls(v)
    except ValueError:
        # "nothing": the class's _missing_ hook returned None (Python then raises the generic error)
        hook = None
        try:
            hook = cls._missing_(v)
            returned = True
        except BaseException:
            returned = False
        if returned and hook is None:
            return ".nothing"
        return ".valueError"
    except AssertionError:
        return ".assertionError"
    except BaseException:
        return ".otherError"
    if r is None:
        return ".nothing"
    if isinstance(r, cls):
        return f".member {int(r.value)}"
    return ".otherError"


def classify_from_bits(cls, v, w):
    try:
        r = cls.from_bits(int2ba(v, length=w))
    except ValueError:
        return classify(cls, v) if classify(cls, v) in (".nothing", ".valueError") else ".valueError"
    except AssertionError:
        return ".assertionError"
    except BaseException:
        return ".otherError"
    if r is None:
        return ".nothing"
    if isinstance(r, cls):
        return f".member {int(r.value)}"
    return ".otherError"


def lres(xs, per_line=8):
    lines = [", ".join(xs[i : i + per_line]) for i in range(0, len(xs), per_line)]
    return "[" + ",\n    ".join(lines) + "]"


def elements():
    """[(lean name, class, width)] and the list of skipped class names"""
    done, skipped = [], []
    for cls in element_classes():
        w = width_of(cls)
        if w is None or w > 8:
            skipped.append(cls.__name__)
            continue
        done.append(("e" + cls.__name__, cls, w))
    return done, skipped


@register("Elements")  # noqa: F821  (injected by extract.py)
def gen_elements() -> str:
    from okdmr.dmrlib.etsi.layer2.elements.fragment_sequence_number import FragmentSequenceNumber
    from okdmr.dmrlib.etsi.layer2.pdu.rate12_data import Rate12DataTypes
    from okdmr.dmrlib.etsi.layer2.pdu.rate34_data import Rate34DataTypes
    from okdmr.dmrlib.etsi.layer2.pdu.rate1_data import Rate1DataTypes

    out = [HEADER, "import DmrVerif.Model.Elem\n\nnamespace Dmr.Gen\n"]  # noqa: F821
    done, skipped = elements()
    names = []
    for lname, cls, w in done:
        graph = [classify(cls, v) for v in range(2**w)]
        has_fb = "from_bits" in vars(cls)
        fb = [classify_from_bits(cls, v, w) for v in range(2**w)] if has_fb else []
        members = [int(m.value) for m in cls]
        has_ab = "as_bits" in vars(cls)
        ab = [lbits(m.as_bits()) for m in cls] if has_ab else []  # noqa: F821
        out.append(
            f"def {lname} : Elem where\n"
            f"  name := {lstr(cls.__name__)}\n"  # noqa: F821
            f"  w := {w}\n"
            f"  graph := {lres(graph)}\n"
            f"  fromBits := {lres(fb)}\n"
            f"  members := {lnats(members)}\n"  # noqa: F821
            f"  asBits := [" + ",\n    ".join(ab) + "]\n"
        )
        names.append(lname)

    # FragmentSequenceNumber is a plain class around a 4-bit value (constructor asserts the range)
    def fsn(v):
        try:
            return f".member {int(FragmentSequenceNumber(v).value)}"
        except AssertionError:
            return ".assertionError"
        except ValueError:
            return ".valueError"
        except BaseException:
            return ".otherError"

    def fsn_fb(v):
        try:
            return f".member {int(FragmentSequenceNumber.from_bits(int2ba(v, length=4)).value)}"
        except AssertionError:
            return ".assertionError"
        except ValueError:
            return ".valueError"
        except BaseException:
            return ".otherError"

    def fsn_ab(v):
        try:
            return lbits(FragmentSequenceNumber(v).as_bits())  # noqa: F821
        except BaseException:
            return "[]"

    def fsn_last(v):
        try:
            return bool(FragmentSequenceNumber(v).is_last())
        except BaseException:
            return False

    out.append(
        "def eFragmentSequenceNumber : Elem where\n"
        '  name := "FragmentSequenceNumber"\n'
        "  w := 4\n"
        f"  graph := {lres([fsn(v) for v in range(16)])}\n"
        f"  fromBits := {lres([fsn_fb(v) for v in range(16)])}\n"
        f"  members := {lnats(list(range(16)))}\n"  # noqa: F821
        "  asBits := [" + ",\n    ".join(fsn_ab(v) for v in range(16)) + "]\n"
    )
    names.append("eFragmentSequenceNumber")
    out.append(
        "/-- `FragmentSequenceNumber(v).is_last()` for v = 0 … 15 -/\n"
        f"def fsnIsLast : List Bool := {lbits([fsn_last(v) for v in range(16)])}\n"  # noqa: F821
    )

    out.append("/-- every extracted element -/\ndef allElems : List Elem := [" + ", ".join(names) + "]\n")
    out.append(
        "/-- enum classes of the element packages that are not bit-field elements of width ≤ 8 -/\n"
        "def skippedElems : List String := [" + ", ".join(lstr(s) for s in skipped) + "]\n"  # noqa: F821
    )

    # data length in octets of the four variants of each rate-coded data block (enum values)
    for nm, cls in (("rate12Lens", Rate12DataTypes), ("rate34Lens", Rate34DataTypes), ("rate1Lens", Rate1DataTypes)):
        vals = [cls.Unconfirmed.value, cls.Confirmed.value, cls.UnconfirmedLastBlock.value, cls.ConfirmedLastBlock.value, cls.Undefined.value]
        out.append(
            f"/-- `{cls.__name__}`: Unconfirmed, Confirmed, UnconfirmedLastBlock, ConfirmedLastBlock, Undefined -/\n"
            f"def {nm} : List Nat := {lnats(vals)}\n"  # noqa: F821
        )
    out.append("end Dmr.Gen\n")
    return "\n".join(out)
