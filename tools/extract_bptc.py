"""
Translator plugin for BPTC(196,96) (property C02): dumps `BPTC19696.INTERLEAVING_INDICES` with all five
columns and the four derived maps exactly as the class-level dict comprehensions produced them at import
time, in dict iteration order (the loops of the library iterate over `.items()`, so the order matters:
later writes win).  Nothing is recomputed here; the Lean side re-derives the maps from the main table and
checks that they agree (`Dmr.C02.maps_derived`).
"""


def _nat(x) -> str:
    v = int(x)
    if v != x or v < 0:
        raise ValueError(f"table entry {x!r} is not a natural number")
    return str(v)


def _pairs(d: dict, per_line=8) -> str:
    items = [f"({_nat(k)}, {_nat(v)})" for k, v in d.items()]
    lines = [", ".join(items[i : i + per_line]) for i in range(0, len(items), per_line)]
    return "[" + ",\n    ".join(lines) + "]"


@register("Bptc")  # noqa: F821  (injected by tools/extract.py)
def gen_bptc() -> str:
    from okdmr.dmrlib.etsi.fec.bptc_196_96 import BPTC19696 as B

    rows = []
    for k, v in B.INTERLEAVING_INDICES.items():
        if len(v) != 5:
            raise ValueError(f"INTERLEAVING_INDICES[{k}] has {len(v)} columns, expected 5")
        il, row, col, res, ham = v
        if not isinstance(res, bool) or not isinstance(ham, bool):
            raise ValueError(f"INTERLEAVING_INDICES[{k}]: flags are not booleans")
        rows.append(f"({_nat(k)}, {_nat(il)}, {_nat(row)}, {_nat(col)}, {lbool(res)}, {lbool(ham)})")  # noqa: F821
    out = [
        HEADER,  # noqa: F821
        "import DmrVerif.Model.Bits\n\nnamespace Dmr.Gen.Bptc19696\n",
        "/-- `INTERLEAVING_INDICES.items()` in dict order:\n"
        "(key = data index, interleave index, row (from 1; 0 for R(3)), column, is reserved, is hamming) -/\n"
        "def interleavingIndices : List (Nat × Nat × Nat × Nat × Bool × Bool) := [\n    "
        + ",\n    ".join(rows)
        + "]\n",
        "/-- `FULL_INTERLEAVING_MAP.items()` -/\ndef fullInterleavingMap : List (Nat × Nat) := "
        + _pairs(B.FULL_INTERLEAVING_MAP)
        + "\n",
        "/-- `FULL_DEINTERLEAVING_MAP.items()` -/\ndef fullDeinterleavingMap : List (Nat × Nat) := "
        + _pairs(B.FULL_DEINTERLEAVING_MAP)
        + "\n",
        "/-- `DEINTERLEAVE_INFO_BITS_ONLY_MAP.items()` -/\ndef deinterleaveInfoBitsOnlyMap : List (Nat × Nat) := "
        + _pairs(B.DEINTERLEAVE_INFO_BITS_ONLY_MAP)
        + "\n",
        "/-- `INTERLEAVE_INFO_BITS_ONLY_MAP.items()` -/\ndef interleaveInfoBitsOnlyMap : List (Nat × Nat) := "
        + _pairs(B.INTERLEAVE_INFO_BITS_ONLY_MAP)
        + "\n",
        "end Dmr.Gen.Bptc19696\n",
    ]
    return "\n".join(out)
