#!/bin/sh
# run_all.sh [seed] [tier] [jobs]: every claimed check on the clean tree; prints one status line per property
SEED=${1:-0}; TIER=${2:-quick}; JOBS=${3:-4}
cd "$(dirname "$0")/.."
for i in $(seq -w 1 20); do echo C$i; done | xargs -P $JOBS -I{} sh -c "VERIF_SEED=$SEED /venv/bin/python harness/check.py {} --tier $TIER > .run/all-{}.log 2>&1; echo \"{} rc=\$? \$(grep -c '^VIOLATION' .run/all-{}.log) violations \$(tail -1 .run/all-{}.log | grep -o 'wall=[0-9.]*s')\""
