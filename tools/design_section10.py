#!/usr/bin/env python3
"""Refresh the *Results* block of DESIGN.md §10 from seeded/*/meta.json + result.json (maintainer command)."""
import json, os, re, subprocess, sys
HERE = os.path.dirname(os.path.abspath(__file__))
ROOT = os.path.join(HERE, "..")
S = os.path.join(ROOT, "seeded")
rows = []
for n in sorted(os.listdir(S)):
    d = os.path.join(S, n)
    if not os.path.exists(os.path.join(d, "meta.json")):
        continue
    r = json.load(open(os.path.join(d, "result.json"))) if os.path.exists(os.path.join(d, "result.json")) else {}
    rows.append((n, r))
tot = len(rows)
caught = [n for n, r in rows if r.get("detected")]
with_input = [n for n, r in rows if r.get("detected") and r.get("with_failing_input")]
nfi = [n for n, r in rows if r.get("detected") and not r.get("with_failing_input")]
missed = [n for n, r in rows if r and r.get("rc") == 0]
noverdict = [n for n, r in rows if r and r.get("rc") not in (0, 1)]
notrun = [n for n, r in rows if not r]
table = subprocess.run([sys.executable, os.path.join(HERE, "seeded_table.py")], capture_output=True, text=True).stdout
block = (
    "<!-- SEEDED-RESULTS-BEGIN (tools/design_section10.py) -->\n"
    "*Results.* Output of `python3 tools/seeded_table.py` at the last refresh "
    f"({tot} confirmed changes; {len(caught)} caught by the quick check, {len(with_input)} of them with a concrete failing input"
    + (f", {len(nfi)} as `no-failing-input-found`: {', '.join(nfi)}" if nfi else "")
    + (f"; missed (exit 0): {', '.join(missed)}" if missed else "; none missed")
    + (f"; no verdict (patch no longer applies on top of later fix commits / infrastructure): {', '.join(noverdict)}" if noverdict else "")
    + (f"; not yet run: {', '.join(notrun)}" if notrun else "")
    + "). \"needs\" and \"what was changed\" are the seeding agent's own words, cut at 220 characters; \"reported as\" is the `what` of the first replay file.\n\n"
    + table
    + "<!-- SEEDED-RESULTS-END -->\n"
)
p = os.path.join(ROOT, "DESIGN.md")
s = open(p).read()
if "<!-- SEEDED-RESULTS-BEGIN" in s:
    s = re.sub(r"<!-- SEEDED-RESULTS-BEGIN.*?<!-- SEEDED-RESULTS-END -->\n", lambda m: block, s, flags=re.S)
else:
    a = s.index("*Results.* Output of")
    b = s.index("### Hardening after round 2")
    s = s[:a] + block + "\n" + s[b:]
open(p, "w").write(s)
print(f"{tot} changes, {len(caught)} caught, missed={missed}, no verdict={noverdict}, not run={notrun}")
