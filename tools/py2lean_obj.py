"""
py2lean_obj — extension of tools/py2lean_bits.py (itself on top of tools/py2lean.py) to byte-oriented OBJECT codecs: the
Motorola ARS / TMS messages and their headers (`from_bytes` / `as_bytes` / `__len__` / `__init__`).

Semantics of every `PyObj.*` operation: `lean/DmrVerif/Model/PyObj.lean`; same SOUNDNESS RULE as py2lean.py.  Nothing of the
library is executed.  Extension WITHOUT editing the two translators below: both are loaded by path as PRIVATE module objects
(`B` = py2lean_bits, `P` = the py2lean instance inside it); the patches (`lean_type`, `ELEMENT_PACKAGES`) touch those private
instances only.  Everything outside the subset raises `Untranslatable`.

Added to the subset of py2lean_bits:
  * `str` values (`PyObj.Str`, the string represented by its UTF-8 encoding): parameters / attributes / `Optional[str]`,
    truth value, `==`, `len`; `s.encode("utf-8")` / `b.decode("utf-8")` are CALL BOUNDARIES (fields of `Ext`);
  * parameters translated for ONE constant value (`consts={"endian": "big"}`): the parameter disappears, every read of it is the
    literal; a call that passes anything but that literal (or relies on a different default) is refused;
  * VARIANTS of one Python function for different static types of a `Union[...]` parameter (`variant="data"`): a call whose
    argument is `Optional[T]` dispatches on `None` / not `None` to the variant translated for `None` / for `T`;
  * Enum classes of `okdmr.dmrlib.motorola` / `okdmr.dmrlib.hytera` (unique non-negative int values): `E(v)` through the value
    graph the property's own extractor regenerates (`Gen/Ars.lean` …), named per class in the unit (`enums=`);
    `x in (E.A, E.B)`; truth value of a member (no `__bool__` / `__len__` in the class);
  * `x is None` / `x is not None`; `isinstance` / `hasattr(x, "__len__")` on `Optional` values (false exactly on `None`);
    `A or B` / `A and B` decided statically with NARROWING (`x is None or isinstance(x, C)` for `x : Optional[C]` is true);
  * truth value of `None`, `Optional[T]`, objects (through the translated `__len__` when the class defines one);
  * conditional expressions `X if c else None` (type `Optional[T]`); attribute assignments with a declared `Optional[...]`
    annotation (`self.first_header: Optional[FirstHeader] = None`);
  * a local / parameter that is re-assigned a value of ANOTHER static type at the top level of the function body
    (`data = data.encode("utf-8")`): a new Lean binding that shadows the old one;
  * a static method called through an instance (`self.encode_len_val(...)`);
  * a method that assigns attributes of its object and ends with `return self`, called on the result of a call that returns a
    FRESH object (every `return` of that callee is a constructor call): `C.from_bytes(..).context(h)`;
  * `bytes([x])` with `x : Optional[int]` (`TypeError` on `None`), `ba2int(x, False)`, `int2ba(.., signed=False)`,
    keyword arguments of externals (a parameter fixed to one value: the live default is checked);
  * pair-valued Enum classes (`TMSPDUType`, values `(bool, int)`; `tenums=`): a member is its NUMBER in a declared order,
    `E((c, v))` = `PyObj.enumCallPair` through the extracted graph, `.value` = `PyObj.pairVal`; the generated file proves
    (`decide`) that the value table it indexes is the live class's in that order;  Enum graphs that give the member value
    directly (`enums={"E": ("V", graph)}`);
  * locals declared `Optional[T]` (the annotation is the static type; `T` / `None` values are coerced, also through tuple
    unpacking); a function annotated `Optional[...]` that can fall off the end gets the implicit `return None`;
  * `bits += [b, …]` / `bits += (ba if c else [0, …])` on a fresh local bitarray; `bytes + Optional[bytes]`;
    `Optional[E] == member`, order comparisons / `int2ba` with an `Optional[int]` (`TypeError` on `None`);
  * a method that assigns attributes, called on an object reachable from `self` (`self.header.set_has_more_headers(x)`):
    only inside a `return` expression with no later read of `self`; the definition is then marked (doc comment,
    `hidden_mutation`): it gives the RETURN VALUE only and no translated function may call it.
Refused here although py2lean_bits has it: attribute assignment on anything but `self` (an object stored in two places and then
changed through one of them would be visible through the other; value semantics cannot show that).
"""
import ast
import copy
import importlib
import importlib.util
import inspect
import os
import sys

_HERE = os.path.dirname(os.path.abspath(__file__))


def _load(name, fn):
    spec = importlib.util.spec_from_file_location(name, os.path.join(_HERE, fn))
    mod = importlib.util.module_from_spec(spec)
    spec.loader.exec_module(mod)
    return mod


B = _load("py2lean_bits_for_obj", "py2lean_bits.py")  # private copies: the patches below stay in here
P = B.P
Untranslatable = P.Untranslatable
Ex = P.Ex
mangle = P.mangle
BA = B.BA

B.ELEMENT_PACKAGES = tuple(B.ELEMENT_PACKAGES) + ("okdmr.dmrlib.motorola.", "okdmr.dmrlib.hytera.")
_bits_lean_type = B.lean_type


def lean_type(t) -> str:
    if t == "str":
        return "PyObj.Str"
    if isinstance(t, tuple) and t[0] == "enumt":
        return "Int"
    if isinstance(t, tuple) and t[0] == "opt":
        inner = lean_type(t[1])
        return f"Option {inner}" if " " not in inner else f"Option ({inner})"
    if isinstance(t, tuple) and t[0] == "tuple":
        return "(" + " × ".join(lean_type(x) for x in t[1]) + ")"
    return _bits_lean_type(t)


B.lean_type = lean_type
P.lean_type = lean_type
P.EXC.update({"AttributeError": '(.other "AttributeError")'})

HAS_LEN = ("str", "bytes", "ilist", "nats") + tuple(BA)


def is_opt(t):
    return isinstance(t, tuple) and t[0] == "opt"


def is_none_const(n):
    return isinstance(n, ast.Constant) and n.value is None


def tenum_class_ok(cls):
    """an Enum whose member values are unique (bool, int) pairs and that does not override __eq__ / __hash__ / __new__"""
    import enum

    if not (inspect.isclass(cls) and issubclass(cls, enum.Enum)):
        return False
    for k in cls.__mro__:
        if k in (enum.Enum, object):
            continue
        if "__eq__" in k.__dict__ or "__hash__" in k.__dict__ or "__new__" in k.__dict__ and k is not cls:
            return False
    vals = [m.value for m in cls]
    return bool(vals) and all(type(v) is tuple and len(v) == 2 and type(v[0]) is bool and type(v[1]) is int and v[1] >= 0
                              for v in vals) and len(set(vals)) == len(vals)


class OFn(B.BFn):
    """a function / method / constructor of the object-codec subset"""

    def __init__(self, unit, module, qualname, spec=None):
        self.consts = dict((spec or {}).get("consts", {}))
        self.sig_names = []
        self.hidden_mutation = False
        super().__init__(unit, module, qualname, spec)
        self._substitute_consts()
        if is_opt(self.ret) and not self.is_init:
            last = self.node.body[-1]
            if not isinstance(last, (ast.Return, ast.Raise)):
                # falling off the end of a function returns None
                r = ast.Return(value=ast.Constant(value=None))
                ast.copy_location(r, last)
                ast.copy_location(r.value, last)
                self.node.body.append(r)

    def class_type(self, obj):
        if tenum_class_ok(obj) and obj.__name__ in self.unit.tenums:
            return ("enumt", obj.__name__)
        return super().class_type(obj)

    def _signature(self):
        a = self.node.args
        if a.vararg or a.kwarg or a.kwonlyargs or a.posonlyargs:
            self.bad(self.node, "parameter kinds other than positional")
        args = list(a.args)
        self.clsparam = None
        if self.kind == "class":
            self.clsparam = args[0].arg
            args = args[1:]
        elif self.kind == "function" and self.clsname is not None:
            self.selfname = args[0].arg
            t = self.class_type(self.owner)
            if t is None:
                self.bad(self.node, f"instance method of `{self.clsname}`, which is not a class of this unit")
            self.selftype = t
            args = args[1:]
        over = self.spec.get("params", {})
        defaults = [None] * (len(args) - len(a.defaults)) + list(a.defaults)
        self.const_has_default = {}
        for arg, d in zip(args, defaults):
            self.sig_names.append(arg.arg)
            if arg.arg in self.consts:
                # translated for this one value: a default must be that value (calls that leave the argument out rely on it)
                if d is not None and not (isinstance(d, ast.Constant) and type(d.value) is type(self.consts[arg.arg])
                                          and d.value == self.consts[arg.arg]):
                    self.bad(arg, f"parameter `{arg.arg}` is translated for {self.consts[arg.arg]!r} but its default is another value")
                self.const_has_default[arg.arg] = d is not None
                continue
            t = over[arg.arg] if arg.arg in over else self.ann(arg.annotation)
            if t is None:
                self.bad(arg, f"parameter `{arg.arg}` without a usable annotation")
            dx = None
            if d is not None:
                try:
                    dx = self.const_default(d, t)
                except Untranslatable:
                    if arg.arg not in over:
                        raise
                    dx = None  # the default does not have the type the parameter is translated for: always passed
            self.params.append((arg.arg, t, dx))
        for c in self.consts:
            if c not in self.sig_names:
                self.bad(self.node, f"`{c}` is not a parameter")
        if self.is_init:
            self.ret = ("obj", self.clsname)
        elif "ret" in self.spec:
            self.ret = self.spec["ret"]
        else:
            self.ret = self.ann(self.node.returns)
        if self.ret is None:
            self.bad(self.node, "missing return annotation")

    def _substitute_consts(self):
        """every read of a parameter the function is translated for ONE value of becomes that literal"""
        if not self.consts:
            return
        fn = self

        class Sub(ast.NodeTransformer):
            def visit_Name(self, n):
                if n.id in fn.consts:
                    if not isinstance(n.ctx, ast.Load):
                        fn.bad(n, f"parameter `{n.id}` (translated for one value) is assigned")
                    return ast.copy_location(ast.Constant(value=fn.consts[n.id]), n)
                return n

        self.node.body = [Sub().visit(s) for s in self.node.body]
        ast.fix_missing_locations(self.node)

    def const_default(self, d, t):
        if t == "str" and isinstance(d, ast.Constant) and isinstance(d.value, str):
            return Ex("⟨[" + ", ".join(str(b) for b in d.value.encode("utf-8")) + "]⟩", "str")
        return super().const_default(d, t)


class OTranslator(B.BTranslator):
    # ================================================================ helpers
    def enum_pyclass(self, name):
        cls = self.u.enum_classes.get(name)
        if cls is None:
            for f in self.u.fns:
                for v in f.fn.__globals__.values():
                    if inspect.isclass(v) and v.__name__ == name and (B.enum_class_ok(v) or tenum_class_ok(v)):
                        self.u.enum_classes[name] = v
                        return v
        return cls

    def member_truthy_ok(self, name, n):
        cls = self.enum_pyclass(name)
        if cls is None:
            self.f.bad(n, f"truth value of a member of `{name}` (class not found)")
        import enum

        for k in cls.__mro__:
            if k in (enum.Enum, object):
                continue
            if "__bool__" in k.__dict__ or "__len__" in k.__dict__:
                self.f.bad(n, f"truth value of a member of `{name}`, which defines __bool__ / __len__")

    def truthy_var(self, typ, var, n):
        """-> (Lean text of the truth value of the variable `var` of static type typ, is it a PyM action)"""
        if typ == "none":
            return "false", False
        if typ == "bool":
            return var, False
        if typ == "int":
            return f"({var} != 0)", False
        if typ in ("bytes", "ilist", "nats", "str") or typ in BA:
            return f"(!({var}).isEmpty)", False
        if isinstance(typ, tuple) and typ[0] in ("enum", "enumt"):
            self.member_truthy_ok(typ[1], n)
            return "true", False
        if isinstance(typ, tuple) and typ[0] == "obj":
            cls = self.u.class_names[typ[1]]
            if any("__bool__" in k.__dict__ for k in cls.__mro__ if k is not object):
                self.f.bad(n, f"truth value of a `{typ[1]}`, which defines __bool__")
            if any("__len__" in k.__dict__ for k in cls.__mro__ if k is not object):
                callee = self.u.find(cls, "__len__", n, self.f)
                if callee.params or callee.ret != "int":
                    self.f.bad(n, "__len__ with parameters")
                return f"PyObj.truthyLen (← {callee.lean_name} ext {var})", True
            return "true", False
        if is_opt(typ):
            inner, mon = self.truthy_var(typ[1], "v_", n)
            if mon:
                return f"PyObj.truthyOptM (fun v_ => do {inner}) {var}", True
            return f"(PyObj.truthyOpt (fun v_ => {inner}) {var})", False
        self.f.bad(n, f"truth value of {typ}")

    opt_int_ok = False

    def int_of(self, e, n):
        if self.opt_int_ok and e.typ == ("opt", "int"):
            return f"(← PyBits.unwrapT {e.val()})"  # int2ba(None, ...) is a TypeError
        return super().int_of(e, n)

    def truthy(self, e, n):
        if e.typ in ("bool", "int", "bytes", "ilist", "nats") or e.typ in BA:
            return super().truthy(e, n)
        txt, mon = self.truthy_var(e.typ, e.val(), n)
        return f"(← {txt})" if mon else txt

    def narrowed(self, n, env, positive):
        """env for code that runs only if test n came out `positive`: `x is None` false / `x is not None` true narrows x"""
        if isinstance(n, ast.Compare) and len(n.ops) == 1 and is_none_const(n.comparators[0]) and isinstance(n.left, ast.Name) \
                and n.left.id in env and is_opt(env[n.left.id]):
            is_test = isinstance(n.ops[0], ast.Is)
            isnot_test = isinstance(n.ops[0], ast.IsNot)
            if (is_test and not positive) or (isnot_test and positive):
                env = dict(env)
                env[n.left.id] = env[n.left.id][1]
        return env

    def static_test(self, n, env):
        if isinstance(n, ast.Name) and n.id in env and env[n.id] == "none":
            return False
        if is_none_const(n):
            return False
        if isinstance(n, ast.Compare) and len(n.ops) == 1 and isinstance(n.ops[0], (ast.Is, ast.IsNot)) \
                and is_none_const(n.comparators[0]) and isinstance(n.left, ast.Name) and n.left.id in env:
            t = env[n.left.id]
            if is_opt(t):
                return None
            r = t == "none"
            return r if isinstance(n.ops[0], ast.Is) else (not r)
        if isinstance(n, ast.Call) and isinstance(n.func, ast.Name) and n.func.id == "hasattr" and self.glob("hasattr") is None \
                and len(n.args) == 2 and not n.keywords and isinstance(n.args[1], ast.Constant) and n.args[1].value == "__len__" \
                and isinstance(n.args[0], ast.Name) and n.args[0].id in env:
            t = env[n.args[0].id]
            if t in HAS_LEN:
                return True
            if t in ("none", "int", "bool"):
                return False
            return None
        if isinstance(n, ast.Call) and isinstance(n.func, ast.Name) and n.func.id == "isinstance" and len(n.args) == 2 \
                and isinstance(n.args[0], ast.Name) and n.args[0].id in env and not n.keywords:
            t = env[n.args[0].id]
            c = n.args[1]
            if isinstance(c, ast.Name) and c.id == "str" and self.glob("str") is None and self.glob("isinstance") is None:
                if is_opt(t):
                    return None if t[1] == "str" else False
                return t == "str"
            if is_opt(t):
                return None
            if t in ("str", "none"):
                # a str / None against a class: False for the classes whose instances the subset knows (int, bool, bytes,
                # bitarray, classes and Enums of the unit); anything else (`object`, a tuple of classes, …) is refused
                known = isinstance(c, ast.Name) and self.glob("isinstance") is None and (
                    (c.id in ("int", "bool", "bytes") and self.glob(c.id) is None)
                    or (c.id == "bitarray" and self.is_real("bitarray", "bitarray", "bitarray"))
                    or self.f.class_type(self.glob(c.id)) is not None)
                if not known:
                    self.f.bad(n, f"isinstance of a {t} with `{self.f.seg(c)}`")
                return False
        if isinstance(n, ast.BoolOp):
            is_or = isinstance(n.op, ast.Or)
            env2 = env
            undecided = False
            for i, v in enumerate(n.values):
                st = self.static_test(v, env2)
                if st is None:
                    undecided = True
                    if self.has_effects(self.expr_quiet(v, env2)):
                        return None
                    env2 = self.narrowed(v, env2, positive=not is_or)
                    continue
                if st == is_or:
                    # `… or True` / `… and False`: decided, the operands before it have no effects (checked above)
                    return is_or
            return None if undecided else (not is_or)
        return super().static_test(n, env)

    def expr_quiet(self, n, env):
        return self.expr(n, env)

    # ================================================================ expressions
    def e_Constant(self, n, env):
        if isinstance(n.value, str):
            self.f.bad(n, f"str literal {n.value!r} outside the places that take one")
        return super().e_Constant(n, env)

    def tenum(self, name_node, env):
        """the tuple-valued Enum class a bare name refers to (declared in the unit), or None"""
        if isinstance(name_node, ast.Name) and name_node.id not in env:
            cls = self.glob(name_node.id)
            if tenum_class_ok(cls) and cls.__name__ in self.u.tenums:
                return cls
        return None

    def tenum_index(self, cls, member, n):
        info = self.u.tenums[cls.__name__]
        if member not in info["order"]:
            self.f.bad(n, f"member `{member}` of {cls.__name__} is not in the order declared for the value table")
        if [m for m in cls.__members__] != list(info["order"]) and set(cls.__members__) != set(info["order"]):
            self.f.bad(n, f"the members of {cls.__name__} are not the ones declared for the value table")
        return info["order"].index(member)

    def e_Attribute(self, n, env):
        cls = self.tenum(n.value, env)
        if cls is not None:
            if n.attr not in cls.__members__:
                self.f.bad(n, f"`{cls.__name__}.{n.attr}`")
            self.u.enum_classes[cls.__name__] = cls
            return Ex(f"({self.tenum_index(cls, n.attr, n)} : Int)", ("enumt", cls.__name__))
        if n.attr == "value" and not (isinstance(n.value, ast.Name) and n.value.id not in env):
            v = self.unwrap(self.expr(n.value, env))
            if isinstance(v.typ, tuple) and v.typ[0] == "enumt":
                info = self.u.tenums[v.typ[1]]
                return Ex(f"PyObj.pairVal {info['vals']} {v.val()}", ("tuple", ("bool", "int")), True)
        return super().e_Attribute(n, env)

    def e_BinOp(self, n, env):
        if isinstance(n.op, ast.Add):
            a = self.expr(n.left, env)
            if a.typ == "bytes":
                b = self.expr(n.right, env)
                if b.typ == ("opt", "bytes"):
                    # bytes + None is a TypeError, raised after both operands were evaluated
                    return Ex(f"({a.val()} ++ (← PyBits.unwrapT {b.val()}))", "bytes")
        r = super().e_BinOp(n, env)
        if r.typ == "str":
            self.f.bad(n, "operator on str values")
        return r

    def e_Subscript(self, n, env):
        r = super().e_Subscript(n, env)
        if r.typ == "str":
            self.f.bad(n, "subscript of a str")
        return r

    def e_BoolOp(self, n, env):
        st = self.static_test(n, env)
        if st is not None:
            return Ex("true" if st else "false", "bool")
        return super().e_BoolOp(n, env)

    def e_IfExp(self, n, env):
        st = self.static_test(n.test, env)
        if st is not None:
            return self.expr(n.body if st else n.orelse, env)
        c = self.truthy(self.expr(n.test, env), n)
        a = self.expr(n.body, self.narrowed(n.test, env, True))
        b = self.expr(n.orelse, self.narrowed(n.test, env, False))
        if a.typ != b.typ:
            if {a.typ, b.typ} == {"int", "bool"}:
                a, b = Ex(self.int_of(a, n), "int"), Ex(self.int_of(b, n), "int")
            elif b.typ == "none" and not is_opt(a.typ):
                a, b = self.coerce(a, ("opt", a.typ), n, "conditional expression"), Ex("none", ("opt", a.typ))
            elif a.typ == "none" and not is_opt(b.typ):
                a, b = Ex("none", ("opt", b.typ)), self.coerce(b, ("opt", b.typ), n, "conditional expression")
            elif is_opt(a.typ) and b.typ in ("none", a.typ[1]):
                b = self.coerce(b, a.typ, n, "conditional expression")
            elif is_opt(b.typ) and a.typ in ("none", b.typ[1]):
                a = self.coerce(a, b.typ, n, "conditional expression")
            else:
                self.f.bad(n, f"conditional expression of {a.typ} / {b.typ}")
        if self.has_effects(a) or self.has_effects(b):
            return Ex(f"(if {c} then {self.branch(a)} else {self.branch(b)})", a.typ, True)
        return Ex(f"(if {c} then {a.text} else {b.text})", a.typ)

    def e_Compare(self, n, env):
        if len(n.ops) == 1 and isinstance(n.ops[0], (ast.Is, ast.IsNot)) and is_none_const(n.comparators[0]):
            st = self.static_test(n, env)
            if st is not None:
                return Ex("true" if st else "false", "bool")
            x = self.expr(n.left, env)
            if not is_opt(x.typ):
                self.f.bad(n, f"`is None` on a {x.typ}")
            return Ex(f"({x.val()}).isNone" if isinstance(n.ops[0], ast.Is) else f"({x.val()}).isSome", "bool")
        if len(n.ops) == 1 and isinstance(n.ops[0], (ast.Eq, ast.NotEq)):
            a = self.expr(n.left, env)
            b = self.expr(n.comparators[0], env)
            sym = "==" if isinstance(n.ops[0], ast.Eq) else "!="
            kinds = ("enum", "enumt")
            if isinstance(a.typ, tuple) and a.typ[0] == "enumt" and a.typ == b.typ:
                return Ex(f"({a.val()} {sym} {b.val()})", "bool")
            # Optional[E] against a member of E (None equals no member); Optional[int] against an int
            if is_opt(a.typ) and a.typ[1] == b.typ and (b.typ == "int" or isinstance(b.typ, tuple) and b.typ[0] in kinds):
                return Ex(f"({a.val()} {sym} some {b.val()})", "bool")
            if is_opt(b.typ) and b.typ[1] == a.typ and (a.typ == "int" or isinstance(a.typ, tuple) and a.typ[0] in kinds):
                return Ex(f"(some {a.val()} {sym} {b.val()})", "bool")
        if len(n.ops) == 1 and isinstance(n.ops[0], (ast.Lt, ast.LtE, ast.Gt, ast.GtE)):
            a = self.expr(n.left, env)
            b = self.expr(n.comparators[0], env)
            if a.typ == ("opt", "int") or b.typ == ("opt", "int"):
                # an order comparison with None is a TypeError (raised after both operands were evaluated)
                if a.typ == ("opt", "int"):
                    if self.has_effects(b):
                        self.f.bad(n, "order comparison of an Optional[int] with an operand that has effects")
                    a = Ex(f"(← PyBits.unwrapT {a.val()})", "int")
                if b.typ == ("opt", "int"):
                    b = Ex(f"(← PyBits.unwrapT {b.val()})", "int")
                return Ex(self.cmp1(n.ops[0], a, b, n), "bool")
        if len(n.ops) == 1 and isinstance(n.ops[0], (ast.In, ast.NotIn)) and isinstance(n.comparators[0], ast.Tuple):
            x = self.expr(n.left, env)
            if isinstance(x.typ, tuple) and x.typ[0] in ("enum", "enumt"):
                # identity / equality with members of the same Enum (unique values, no __eq__ override): equality of the values
                parts = []
                xv = x.val()
                for c in n.comparators[0].elts:
                    m = self.expr(c, env)
                    if m.typ != x.typ or self.has_effects(m):
                        self.f.bad(n, "`in` with something else than members of the same Enum")
                    parts.append(f"({xv} == {m.text})")
                txt = "(" + " || ".join(parts) + ")"
                if isinstance(n.ops[0], ast.NotIn):
                    txt = f"(!{txt})"
                return Ex(txt, "bool")
        return super().e_Compare(n, env)

    def strip_call(self, n, drop_pos_from=None, drop_kw=()):
        """a copy of call n without trailing positional arguments / keywords that are the literal False"""
        m = copy.copy(n)
        m.args = list(n.args)
        m.keywords = list(n.keywords)
        if drop_pos_from is not None and len(m.args) > drop_pos_from:
            for a in m.args[drop_pos_from:]:
                if not (isinstance(a, ast.Constant) and a.value is False):
                    self.f.bad(n, "signed= other than the literal False")
            m.args = m.args[:drop_pos_from]
        for k in list(m.keywords):
            if k.arg in drop_kw:
                if not (isinstance(k.value, ast.Constant) and k.value.value is False):
                    self.f.bad(n, f"{k.arg}= other than the literal False")
                m.keywords.remove(k)
        return m

    def builtin_ext(self, key, qual, params, ret):
        e = self.u.externals.get(key)
        if e is None:
            e = dict(qual=qual, params=params, ret=ret, key=key, field=key, used=False, names=None, consts={})
            self.u.externals[key] = e
        e["used"] = True
        return e

    def e_Call(self, n, env):
        fn = n.func
        if isinstance(fn, ast.Name) and fn.id not in env:
            name = fn.id
            if name in ("isinstance", "hasattr") and self.glob(name) is None:
                st = self.static_test(n, env)
                if st is not None:
                    return Ex("true" if st else "false", "bool")
                x = self.expr(n.args[0], env)
                if is_opt(x.typ) and not self.has_effects(x):
                    # decided by None / not None (static_test returned None only for an Optional whose inner type qualifies)
                    if name == "hasattr" and x.typ[1] not in HAS_LEN:
                        self.f.bad(n, f"hasattr on {x.typ}")
                    if name == "isinstance":
                        c = n.args[1]
                        inner_ok = isinstance(c, ast.Name) and (
                            (c.id == "str" and x.typ[1] == "str") or self.f.class_type(self.glob(c.id)) == x.typ[1])
                        if not inner_ok:
                            self.f.bad(n, f"isinstance of {x.typ} with `{self.f.seg(c)}`")
                    return Ex(f"(PyObj.isSome {x.val()})", "bool")
                self.f.bad(n, f"{name} that is not decided by the static types")
            if name == "len" and len(n.args) == 1 and not n.keywords and self.glob("len") is None:
                x = self.expr(n.args[0], env)
                if x.typ == "str":
                    return Ex(f"(PyObj.strLen {x.val()})", "int")
            if name == "ba2int" and len(n.args) == 2:
                return super().e_Call(self.strip_call(n, drop_pos_from=1), env)
            if name in ("ba2int", "int2ba") and any(k.arg == "signed" for k in n.keywords):
                self.opt_int_ok = name == "int2ba"
                try:
                    return super().e_Call(self.strip_call(n, drop_kw=("signed",)), env)
                finally:
                    self.opt_int_ok = False
            if name == "bytes" and len(n.args) == 1 and not n.keywords and isinstance(n.args[0], ast.List) \
                    and len(n.args[0].elts) == 1 and self.glob("bytes") is None:
                x = self.expr(n.args[0].elts[0], env)
                if x.typ == ("opt", "int"):
                    # bytes([None]) is a TypeError ('NoneType' object cannot be interpreted as an integer)
                    return Ex(f"Py.toBytes [(← PyBits.unwrapT {x.val()})]", "bytes", True)
            obj = self.glob(name)
            if tenum_class_ok(obj) and obj.__name__ in self.u.tenums and self.u.class_names.get(name) is None:
                if len(n.args) != 1 or n.keywords or not (isinstance(n.args[0], ast.Tuple) and len(n.args[0].elts) == 2):
                    self.f.bad(n, "call of a pair-valued Enum with something else than a literal pair")
                c = self.expr(n.args[0].elts[0], env)
                v = self.expr(n.args[0].elts[1], env)
                if c.typ not in ("int", "bool") or v.typ not in ("int", "bool"):
                    self.f.bad(n, f"pair-valued Enum call on ({c.typ}, {v.typ})")
                info = self.u.tenums[obj.__name__]
                self.u.enum_classes[obj.__name__] = obj
                return Ex(f'PyObj.enumCallPair "{obj.__name__}" {info["graph"]} {self.int_of(c, n)} {self.int_of(v, n)}',
                          ("enumt", obj.__name__), True)
            if B.enum_class_ok(obj) and obj.__name__ in self.u.enums and self.u.enums[obj.__name__][0] == "V":
                if len(n.args) != 1 or n.keywords:
                    self.f.bad(n, "Enum call with other arguments than the value")
                x = self.expr(n.args[0], env)
                if x.typ not in ("int", "bool"):
                    self.f.bad(n, f"Enum call on a {x.typ}")
                self.u.enum_classes[obj.__name__] = obj
                return Ex(f'PyObj.enumCallV "{obj.__name__}" {self.u.enums[obj.__name__][1]} {self.int_of(x, n)}',
                          ("enum", obj.__name__), True)
            if B.enum_class_ok(obj) and obj.__name__ in self.u.enums:
                if len(n.args) != 1 or n.keywords:
                    self.f.bad(n, "Enum call with other arguments than the value")
                x = self.expr(n.args[0], env)
                if x.typ not in ("int", "bool"):
                    self.f.bad(n, f"Enum call on a {x.typ}")
                vals, graph = self.u.enums[obj.__name__]
                self.u.enum_classes[obj.__name__] = obj
                return Ex(f'PyObj.enumCall "{obj.__name__}" {vals} {graph} {self.int_of(x, n)}', ("enum", obj.__name__), True)
            if B.enum_class_ok(obj):
                self.f.bad(n, f"call of Enum `{name}`, which has no value graph declared in this unit")
        if isinstance(fn, ast.Attribute):
            # b.decode("utf-8") / s.encode("utf-8"): call boundary
            if fn.attr in ("decode", "encode") and len(n.args) == 1 and not n.keywords and isinstance(n.args[0], ast.Constant) \
                    and n.args[0].value == "utf-8" and not (isinstance(fn.value, ast.Name) and fn.value.id not in env):
                v = self.expr(fn.value, env)
                if fn.attr == "decode" and v.typ == "bytes":
                    e = self.builtin_ext("bytes_decode_utf8", 'builtins:bytes.decode(…, "utf-8")', ["bytes"], "str")
                    return Ex(f"ext.{e['field']} {v.val()}", "str", True)
                if fn.attr == "encode" and v.typ == "str":
                    e = self.builtin_ext("str_encode_utf8", 'builtins:str.encode(…, "utf-8")', ["str"], "bytes")
                    return Ex(f"ext.{e['field']} {v.val()}", "bytes", True)
                self.f.bad(n, f"{fn.attr}(\"utf-8\") of a {v.typ}")
            is_class = isinstance(fn.value, ast.Name) and fn.value.id not in env
            if not is_class and fn.attr == "to_bytes":
                return P.Translator.e_Call(self, n, env)  # x.to_bytes(...) of an int expression: the integer translator
            if not is_class:
                recv = fn.value
                # a method of a translated class called on a value
                probe = self.expr(recv, env)
                pt = probe.typ[1] if is_opt(probe.typ) else probe.typ
                if isinstance(pt, tuple) and pt[0] == "obj":
                    cls = self.u.pyclass(pt)
                    cands = self.u.find_all(cls, fn.attr, n, self.f)
                    if cands[0].selfname is None:
                        # static method through an instance: the instance is only evaluated
                        if self.has_effects(probe):
                            self.f.bad(n, "static method called through an expression with effects")
                        return self.call_variants(n, cands, env)
                    callee = cands[0]
                    if callee.mutates_self and not (isinstance(recv, ast.Call) and self.returns_fresh(recv, env)):
                        # the object is reachable from `self`: the caller's object CHANGES.  Translated only where nothing of this
                        # function can observe that (inside the returned expression, no read of `self` after it); the definition
                        # then gives the RETURN VALUE only, and no translated function may call it.
                        if not self.hidden_ok(n, recv):
                            self.f.bad(n, f"`{callee.qualname}` assigns attributes of an object that is not fresh")
                        self.f.hidden_mutation = True
                        v = self.unwrap(probe)
                        args = self.call_args(n, callee, env)
                        return Ex("PyObj.fst (" + " ".join([callee.lean_name, "ext", v.val()] + args) + ")", pt, True)
                    if callee.mutates_self:
                        v = self.unwrap(probe)
                        args = self.call_args(n, callee, env)
                        return Ex("PyObj.fst (" + " ".join([callee.lean_name, "ext", v.val()] + args) + ")", pt, True)
            else:
                obj = self.glob(fn.value.id)
                if inspect.isclass(obj) and self.u.externals.get(f"{fn.value.id}.{fn.attr}") is None:
                    cands = self.u.find_all(obj, fn.attr, n, self.f, required=False)
                    if len(cands) > 1:
                        return self.call_variants(n, cands, env)
        return super().e_Call(n, env)

    def hidden_ok(self, call, recv):
        ret = getattr(self, "cur_return", None)
        if ret is None or self.f.selfname is None:
            return False
        if not any(x is call for x in ast.walk(ret)):
            return False
        root = recv
        while isinstance(root, ast.Attribute):
            root = root.value
        if not (isinstance(root, ast.Name) and root.id == self.f.selfname):
            return False
        pos = (root.lineno, root.col_offset)
        for x in ast.walk(ret):
            if isinstance(x, ast.Name) and x.id == self.f.selfname and (x.lineno, x.col_offset) > pos:
                return False
        return True

    def call_translated(self, n, callee, env, selfarg=None):
        if getattr(callee, "hidden_mutation", False):
            self.f.bad(n, f"call of `{callee.qualname}`, whose translation does not show that it changes its object")
        return super().call_translated(n, callee, env, selfarg)

    def returns_fresh(self, call, env):
        """does this call return an object nobody else holds: a constructor, or a translated function all of whose returns are
        constructor calls"""
        fn = call.func
        if isinstance(fn, ast.Name) and fn.id not in env:
            obj = self.glob(fn.id)
            return inspect.isclass(obj) and self.u.class_names.get(obj.__name__) is obj
        if isinstance(fn, ast.Attribute) and isinstance(fn.value, ast.Name) and fn.value.id not in env:
            obj = self.glob(fn.value.id)
            if not inspect.isclass(obj):
                return False
            cands = self.u.find_all(obj, fn.attr, call, self.f, required=False)
            if len(cands) != 1:
                return False
            g = cands[0]
            rets = [x for x in ast.walk(g.node) if isinstance(x, ast.Return)]
            if not rets:
                return False
            for r in rets:
                v = r.value
                if not (isinstance(v, ast.Call) and isinstance(v.func, ast.Name)):
                    return False
                c = g.fn.__globals__.get(v.func.id)
                if not (inspect.isclass(c) and self.u.class_names.get(c.__name__) is c):
                    return False
            return True
        return False

    def call_variants(self, n, cands, env):
        """call of a function that is translated in several variants (static types of ONE parameter)"""
        if len(cands) == 1:
            return self.call_translated(n, cands[0], env)
        vp = cands[0].spec.get("variant")
        if vp is None or any(c.spec.get("variant") != vp for c in cands):
            self.f.bad(n, "several translations of the callee without a declared variant parameter")
        c0 = cands[0]
        named = self.norm_call(n, c0)
        others = [k for k in named.keywords if k.arg != vp]
        if others:
            self.f.bad(n, "call of a function with variants with further (non-constant) arguments")
        arg = [k.value for k in named.keywords if k.arg == vp]
        if not arg:
            self.f.bad(n, f"call of a function with variants without `{vp}`")
        x = self.expr(arg[0], env)
        by_type = {dict((p[0], p[1]) for p in c.params)[vp]: c for c in cands}
        if x.typ in by_type:
            c = by_type[x.typ]
            return Ex(f"{c.lean_name} ext ({mangle(vp)} := {x.val()})", c.ret, True)
        if is_opt(x.typ) and x.typ[1] in by_type and "none" in by_type:
            cn, cs = by_type["none"], by_type[x.typ[1]]
            if cn.ret != cs.ret:
                self.f.bad(n, "variants with different result types")
            return Ex(f"(match {x.val()} with | none => {cn.lean_name} ext ({mangle(vp)} := ()) "
                      f"| some v_ => {cs.lean_name} ext ({mangle(vp)} := v_))", cs.ret, True)
        self.f.bad(n, f"no variant of the callee for an argument of type {x.typ}")

    def norm_call(self, n, callee, start=0):
        """the call with every argument as a keyword (source order), arguments for parameters the callee is translated for one
        value of checked and dropped"""
        kws = []
        for i, a in enumerate(n.args[start:]):
            if isinstance(a, ast.Starred) or i >= len(callee.sig_names):
                self.f.bad(n, "call arguments")
            kws.append(ast.keyword(arg=callee.sig_names[i], value=a))
        for k in n.keywords:
            if k.arg is None or k.arg not in callee.sig_names or any(q.arg == k.arg for q in kws):
                self.f.bad(n, f"keyword argument `{k.arg}`")
            kws.append(k)
        out = []
        seen = set()
        for k in kws:
            seen.add(k.arg)
            if k.arg in callee.consts:
                want = callee.consts[k.arg]
                if not (isinstance(k.value, ast.Constant) and type(k.value.value) is type(want) and k.value.value == want):
                    self.f.bad(n, f"`{callee.qualname}` is translated for {k.arg}={want!r}; this call passes something else")
                continue
            out.append(k)
        for c in callee.consts:
            if c not in seen and not callee.const_has_default.get(c, False):
                self.f.bad(n, f"missing argument `{c}` of {callee.qualname}")
        m = copy.copy(n)
        m.args = []
        m.keywords = out
        return m

    def call_args(self, n, callee, env, start=0):
        return super().call_args(self.norm_call(n, callee, start), callee, env, 0)

    def call_external(self, n, ext, env):
        names = ext.get("names")
        if names is None:
            return super().call_external(n, ext, env)
        got = {}
        for i, a in enumerate(n.args):
            if i >= len(names):
                self.f.bad(n, f"call of the external `{ext['key']}`")
            got[names[i]] = a
        for k in n.keywords:
            if k.arg not in names or k.arg in got:
                self.f.bad(n, f"keyword `{k.arg}` of the external `{ext['key']}`")
            got[k.arg] = k.value
        args = []
        order = list(n.args) + [k.value for k in n.keywords]
        by_node = {id(v): k for k, v in got.items()}
        vals = {}
        for node in order:  # source order = evaluation order
            nm = by_node[id(node)]
            if nm in ext["consts"]:
                want = ext["consts"][nm]
                if not (isinstance(node, ast.Constant) and node.value == want):
                    self.f.bad(n, f"external `{ext['key']}` is declared for {nm}={want!r}")
                continue
            t = ext["params"][[x for x in names if x not in ext["consts"]].index(nm)]
            vals[nm] = self.coerce(self.expr(node, env), t, n, f"argument of external `{ext['key']}`").val()
        for nm in names:
            if nm in ext["consts"]:
                if nm not in got and not ext.get("const_defaults", {}).get(nm, False):
                    self.f.bad(n, f"external `{ext['key']}` called without `{nm}`")
                continue
            if nm not in vals:
                self.f.bad(n, f"external `{ext['key']}` called without `{nm}`")
            args.append(vals[nm])
        return Ex(" ".join([f"ext.{ext['field']}"] + args), ext["ret"], True)

    # ================================================================ statements
    def declare(self, name, e, env, ind, node, declared_type=None):
        if name in self.rename:
            self.f.bad(node, f"`{name}` is assigned again after it changed its static type")
        if name in env and is_opt(env[name]) and (e.typ == "none" or e.typ == env[name][1]):
            e = self.coerce(e, env[name], node, f"local `{name}`")
        if name in env and env[name] != e.typ and not (env[name] == "int" and e.typ == "bool") and "." not in name:
            if ind != 1:
                self.f.bad(node, f"`{name}` changes its type from {env[name]} to {e.typ} inside a branch / loop")
            # a NEW Lean binding under another name (top level of the function body: everything later reads the new one, nothing
            # assigns it again)
            env = dict(env)
            env[name] = e.typ
            lean = f"{mangle(name)}_r{len(self.rename) + 1}"
            self.rename[name] = lean
            arrow = "←" if e.monadic else ":="
            return [f"  let {lean} : {lean_type(e.typ)} {arrow} {e.text}"], env
        return super().declare(name, e, env, ind, node, declared_type)

    def e_Name(self, n, env):
        if n.id in self.rename and n.id in env:
            return Ex(self.rename[n.id], env[n.id])
        return super().e_Name(n, env)

    def function(self):
        self.rename = {}
        return super().function()

    def s_Return(self, s, env, ctx, ind):
        self.cur_return = s.value
        try:
            if is_opt(self.f.ret) and ctx.kind == "func" and not self.f.is_init and not self.f.mutates_self_decl:
                e = self.coerce(self.expr(s.value, env) if s.value is not None else Ex("()", "none"), self.f.ret, s, "return value")
                return ["  " * ind + f"return {e.val()}"], env, False
            return super().s_Return(s, env, ctx, ind)
        finally:
            self.cur_return = None

    def s_Assign(self, s, env, ctx, ind):
        t = s.targets[0] if len(s.targets) == 1 else None
        if isinstance(t, ast.Tuple) and all(isinstance(x, ast.Name) for x in t.elts):
            e = self.expr(s.value, env)
            names = [x.id for x in t.elts]
            if isinstance(e.typ, tuple) and e.typ[0] == "tuple" and len(e.typ[1]) == len(names) and len(set(names)) == len(names) \
                    and any(nm in env and env[nm] != ty for nm, ty in zip(names, e.typ[1])):
                # a component goes into a local of a wider (Optional) type: through temporaries, each assignment coerces
                pad = "  " * ind
                self.tmp += 1
                tmps = [f"{mangle(x)}_{self.tmp}" for x in names]
                ls = [f"{pad}let ({', '.join(tmps)}) {'←' if e.monadic else ':='} {e.text}"]
                for nm, tmpn, ty in zip(names, tmps, e.typ[1]):
                    l2, env = self.declare(nm, Ex(tmpn, ty), env, ind, s)
                    ls += l2
                return ls, env, True
        return super().s_Assign(s, env, ctx, ind)

    def as_ba(self, node, env):
        """the right side of `bits += …`: a bitarray, or a list literal of bools / ints 0, 1 (each item is appended)"""
        if isinstance(node, ast.List):
            items = [self.expr(x, env) for x in node.elts]
            if all(x.typ == "bool" for x in items):
                return Ex("[" + ", ".join(x.val() for x in items) + "]", "ba")
            if all(x.typ in ("bool", "int") for x in items):
                return Ex("PyBits.baOfInts [" + ", ".join(self.int_of(x, node) for x in items) + "]", "ba", True)
            self.f.bad(node, "bitarray += [...] of something else than ints / bools")
        if isinstance(node, ast.IfExp):
            st = self.static_test(node.test, env)
            if st is not None:
                return self.as_ba(node.body if st else node.orelse, env)
            c = self.truthy(self.expr(node.test, env), node)
            a, b = self.as_ba(node.body, env), self.as_ba(node.orelse, env)
            t = a.typ if a.typ == b.typ else "bax"
            return Ex(f"(if {c} then {self.branch(a)} else {self.branch(b)})", t, True)
        x = self.expr(node, env)
        if x.typ not in BA:
            self.f.bad(node, f"bitarray += {x.typ}")
        return x

    def s_AugAssign(self, s, env, ctx, ind):
        if isinstance(s.target, ast.Name) and env.get(s.target.id) in BA and isinstance(s.op, ast.Add) \
                and isinstance(s.value, (ast.List, ast.IfExp)):
            nm = s.target.id
            if not self.fresh.get(nm, False):
                self.f.bad(s, f"in-place += on `{nm}`, which may share its bitarray with another name")
            x = self.as_ba(s.value, env)
            # the container keeps its endianness (the left operand's); the new bits follow in index order
            return ["  " * ind + f"{mangle(nm)} := {mangle(nm)} ++ {x.val()}"], env, True
        return super().s_AugAssign(s, env, ctx, ind)

    def attr_store(self, s, target, value_node, env, ind, declared=None):
        if not (isinstance(target.value, ast.Name) and target.value.id == self.f.selfname):
            self.f.bad(s, "attribute assignment on something else than `self`")
        if declared is not None and is_opt(declared):
            x = self.expr(value_node, env)
            if x.typ == "none" or x.typ == declared[1]:
                x = self.coerce(x, declared, s, f"attribute `{target.attr}`")
                saved = self.expr
                self.expr = lambda node, e: x if node is value_node else saved(node, e)
                try:
                    return super().attr_store(s, target, value_node, env, ind)
                finally:
                    self.expr = saved
        return super().attr_store(s, target, value_node, env, ind)

    def s_AnnAssign(self, s, env, ctx, ind):
        declared = None
        if s.value is not None:
            try:
                declared = self.f.ann(s.annotation)
            except Untranslatable:
                declared = None
        if s.value is not None and isinstance(s.target, ast.Attribute):
            return self.attr_store(s, s.target, s.value, env, ind, declared)
        if s.value is not None and isinstance(s.target, ast.Name) and declared is not None and is_opt(declared) \
                and s.target.id not in env:
            # a local declared Optional[T]: that is its static type, whatever T / None value it starts with
            x = self.expr(s.value, env)
            if x.typ == "none" or x.typ == declared[1] or x.typ == declared:
                x = self.coerce(x, declared, s, f"local `{s.target.id}`")
                self.fresh[s.target.id] = False
                ls, env = self.declare(s.target.id, x, env, ind, s)
                return ls, env, True
        return super().s_AnnAssign(s, env, ctx, ind)

    def s_Expr(self, s, env, ctx, ind):
        v = s.value
        if isinstance(v, ast.Call) and isinstance(v.func, ast.Attribute) and isinstance(v.func.value, ast.Name) \
                and v.func.value.id in env and isinstance(env[v.func.value.id], tuple) and env[v.func.value.id][0] == "obj":
            self.f.bad(s, "method call as a statement")
        return super().s_Expr(s, env, ctx, ind)


class ObjUnit(B.BitsUnit):
    """functions: [(module, qualname[, spec])]; spec keys: params (monomorphisation), consts (parameters translated for one
    value), ret, lean_name, variant (name of the parameter whose static type distinguishes several entries of one function);
    enums: {Enum class name: (Lean name of the member values : List Nat, Lean name of the call graph : List (Option Nat))};
    externals: like py2lean_bits, plus names=[parameter names] and consts={name: value} for keyword calls"""

    def __init__(self, name, functions, classes=(), externals=None, enums=None, imports=(), plugin="extract_transl_obj.py",
                 tenums=None):
        self.name = name
        self.tenums = dict(tenums or {})
        self.fuel = {}
        self.consts = {}
        self.done = []
        self.notes = ""
        self.plugin = plugin
        self.imports = list(imports)
        self.enums = dict(enums or {})
        self.enum_classes = {}
        self.class_names = {}
        self.classes = {}
        for m, c in classes:
            cls = getattr(importlib.import_module(m), c)
            self.class_names[c] = cls
            self.classes[c] = {"attrs": {}, "pycls": cls, "module": m}
        self.externals = {}
        for key, e in (externals or {}).items():
            d = dict(e)
            d["key"] = key
            d["field"] = key.replace(".", "_")
            d["used"] = False
            d.setdefault("names", None)
            d.setdefault("consts", {})
            self.externals[key] = d
        self.fns = [OFn(self, *entry) for entry in functions]

    def find_all(self, cls, name, node, f, required=True):
        if cls is None:
            f.bad(node, "method of an unknown class")
        try:
            static = inspect.getattr_static(cls, name)
        except AttributeError:
            f.bad(node, f"`{cls.__name__}.{name}` does not exist")
        live = static.__func__ if isinstance(static, (staticmethod, classmethod)) else static
        out = [g for g in self.fns if g.fn is live]
        if not out and required:
            f.bad(node, f"call of `{cls.__name__}.{name}`, which is not a translated function of this unit")
        return out

    def find(self, cls, name, node, f, required=True):
        out = self.find_all(cls, name, node, f, required)
        if len(out) > 1:
            f.bad(node, f"`{cls.__name__}.{name}` is translated in several variants; this kind of call does not dispatch")
        return out[0] if out else None

    def external(self, f, key, live):
        e = self.externals.get(key)
        if e is None or e["qual"].startswith("builtins:"):
            return None
        r = super().external(f, key, live)
        if r is not None and e.get("consts"):
            # a parameter of the external that is fixed to one value: where the plug-in says calls may leave it out, the live
            # default must be that value
            sig = inspect.signature(getattr(live, "__func__", live))
            for nm, want in e["consts"].items():
                if e.get("const_defaults", {}).get(nm, False):
                    par = sig.parameters.get(nm)
                    if par is None or par.default is inspect.Parameter.empty or type(par.default) is not type(want) \
                            or par.default != want:
                        raise Untranslatable(f"{f.file}: the default of `{nm}` of `{key}` is not {want!r}")
        return r

    def pyclass(self, t):
        if t[0] == "obj":
            return self.class_names.get(t[1])
        return self.enum_classes.get(t[1])

    def pyval_fn(self, t):
        if isinstance(t, tuple) and t[0] == "enumt":
            return f'(.enum "{t[1]}")'
        if t == "str":
            return "(fun s => .bytes s.utf8)"
        if isinstance(t, tuple) and t[0] == "opt":
            return f"(PyVal.ofOpt {self.pyval_fn(t[1])})"
        return super().pyval_fn(t)

    def render(self, header="") -> str:
        texts = {}
        order = [g for g in self.fns if g.is_init] + [g for g in self.fns if not g.is_init]
        for g in order:
            g.mutates_self = False
            if g.selfname is not None and not g.is_init:
                for nd in ast.walk(g.node):
                    if isinstance(nd, ast.Attribute) and isinstance(nd.ctx, ast.Store) and isinstance(nd.value, ast.Name) \
                            and nd.value.id == g.selfname:
                        g.mutates_self = True
        # callees before callers: the listed order, constructors first
        for g in order:
            texts[g] = OTranslator(self, g).function()
        out = [header.rstrip("\n"),
               "import DmrVerif.Model.PyObj"] + [f"import {m}" for m in self.imports] + [
               "",
               "/-!",
               f"Translated by tools/py2lean_obj.py (on top of py2lean_bits.py / py2lean.py; plug-in tools/{self.plugin}) from the SOURCE of the",
               "functions below, on every run.  Semantics of every `Py.*` / `PyBits.*` / `PyObj.*` operation: `DmrVerif/Model/Py.lean`,",
               "`PyBits.lean`, `PyObj.lean`.  `Ext` lists what is called but NOT translated (explicit parameters of every definition; the",
               "equality theorems instantiate them with the model's functions; trusted: the call boundary).  An object is a structure of",
               "`Option` fields (`none` = the attribute has not been assigned), a `str` is `PyObj.Str` (its UTF-8 encoding), an Enum member",
               "is its int value and `E(v)` goes through the value graph of the property's own generated table.",
               "-/",
               "",
               "set_option linter.unusedVariables false",
               "",
               f"namespace Dmr.Transl.{self.name}",
               "open Dmr Dmr.Py Dmr.PyBits",
               ""]
        out.append("/-- code that is called but not translated (uninterpreted parameters) -/")
        out.append("structure Ext where")
        used = [e for e in self.externals.values() if e["used"]]
        if not used:
            out.append("  unit : Unit := ()")

        def par(s):
            return s if " " not in s else f"({s})"

        for e in used:
            ps = " → ".join(par(lean_type(t)) for t in e["params"])
            note = ""
            if e["consts"]:
                note = " with " + ", ".join(f"{k}={v!r}" for k, v in e["consts"].items())
            out.append(f"  /-- `{e['qual']}`{note} -/")
            out.append(f"  {e['field']} : {ps} → PyM {par(lean_type(e['ret']))}")
        out.append("")
        for c, info in self.classes.items():
            out.append(f"/-- objects of `{info['module']}.{c}`: one field per attribute, `none` = not assigned yet -/")
            out.append(f"structure {c} where")
            for a, t in info["attrs"].items():
                out.append(f"  {mangle(a)} : Option {par(lean_type(t))} := none")
            out.append("  deriving DecidableEq, Repr, Inhabited")
            out.append("")
        for c, info in self.classes.items():
            out.append(f"/-- the attributes of a `{c}` as observable values (line protocol) -/")
            out.append(f"def {c}.fields (o : {c}) : List (String × PyVal) := [")
            rows = []
            for a, t in info["attrs"].items():
                rows.append(f'  ("{a}", PyVal.ofAttr {self.pyval_fn(t)} o.{mangle(a)})')
            out.append(",\n".join(rows) + "]")
            out.append("")
        for key in self.consts:
            nm, typ, txt, where = self.consts[key]
            out.append(f"/-- {where} -/")
            out.append(f"def {nm} : {lean_type(typ)} := {txt}")
            out.append("")
        for nm, info in self.tenums.items():
            cls = self.enum_classes.get(nm)
            if cls is None:
                continue
            vals = ", ".join(f"({'true' if cls[m].value[0] else 'false'}, {cls[m].value[1]})" for m in info["order"])
            out.append(f"/-- member number = position in this order ({', '.join(info['order'])}): the value table of `{nm}` the translation")
            out.append("indexes is the one the live class has in that order -/")
            out.append(f"theorem {nm}_order : {info['vals']} = [{vals}] := by decide")
            out.append("")
        for g in self.fns:
            if g.hidden_mutation:
                texts[g] = texts[g].replace(" -/\n", " — NOTE: a call inside changes an object reachable from `self` (Python mutates it in place);"
                                            " this definition gives the RETURN VALUE only and is never called by translated code -/\n", 1)
            out.append(texts[g])
        out.append(f"end Dmr.Transl.{self.name}")
        return "\n".join(out) + "\n"


def translate_unit(name, functions, classes=(), externals=None, enums=None, imports=(), header="", plugin="extract_transl_obj.py",
                   tenums=None) -> str:
    return ObjUnit(name, functions, classes, externals, enums, imports, plugin, tenums).render(header)


if __name__ == "__main__":
    # developer helper: print one unit of tools/extract_transl_obj.py without running extract.py
    import traceback

    regs = {}

    def register(nm):
        def d(f):
            regs[nm] = f
            return f

        return d

    path = os.path.join(_HERE, "extract_transl_obj.py")
    g = {"register": register, "HEADER": "-- GENERATED by tools/extract.py from /repo's working tree. Do not edit.\n",
         "__file__": path, "__name__": "x"}
    exec(compile(open(path).read(), path, "exec"), g)
    try:
        print(regs[sys.argv[1]]())
    except Exception:  # noqa
        traceback.print_exc()
        sys.exit(1)
