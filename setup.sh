#!/bin/sh
# MANIFEST.setup_cmd: offline build of the framework from files on disk.  Builds the property
# theorems and model drivers of every property claimed in MANIFEST.json.
set -e
cd "$(dirname "$0")"
mkdir -p .run evidence replays
/venv/bin/python tools/extract.py
TARGETS=$(python3 - <<'PY'
import json, re
m = json.load(open("MANIFEST.json"))
t = []
for c in m["checks"]:
    p = c["property_id"]
    mods = [p]
    try:
        src = open(f"harness/props/{p.lower()}.py").read()
        mm = re.search(r"^MODULES\s*=\s*\[([^\]]*)\]", src, re.M)
        if mm:
            mods = re.findall(r"[\"']([A-Za-z0-9_]+)[\"']", mm.group(1)) or [p]
    except OSError:
        pass
    t += [f"DmrVerif.Props.{x}" for x in mods] + [f"drv_{p.lower()}"]
print(" ".join(dict.fromkeys(t)))
PY
)
cd lean
flock ../.run/lake.lock lake build $TARGETS
