#!/bin/sh
# MANIFEST.setup_cmd: offline build of the whole framework from files on disk.
set -e
cd "$(dirname "$0")"
/venv/bin/python tools/extract.py
cd lean
lake build DmrVerif driver
