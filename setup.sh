#!/bin/sh
# MANIFEST.setup_cmd: offline build of the framework from files on disk.  Builds the property
# theorems and model drivers of every property claimed in MANIFEST.json.
set -e
cd "$(dirname "$0")"
mkdir -p .run evidence replays
/venv/bin/python tools/extract.py
TARGETS=$(python3 - <<'PY'
import json
m = json.load(open("MANIFEST.json"))
t = []
for c in m["checks"]:
    p = c["property_id"]
    t += [f"DmrVerif.Props.{p}", f"drv_{p.lower()}"]
print(" ".join(t))
PY
)
cd lean
flock ../.run/lake.lock lake build $TARGETS
